"""shared driver for the program-family properties (C02, C04, C05, C08)"""
from vlib import common, progs


def functions_pre():
    common.import_pregex()
    import pregex.core.pre as pre, pregex.core.groups as gr, pregex.core.operators as op, pregex.core.quantifiers as qu
    import pregex.core.assertions as asr
    P = pre.Pregex
    return common.src_fingerprint(common.resolve([(P, "_Pregex__infer_type"), (P, "_concat_conditional_group"), (P, "_quantify_conditional_group"), (P, "_assert_conditional_group"), (P, "_to_pregex"), (P, "concat"), (P, "either"), (P, "enclose"), (P, "capture"), (P, "group"), (P, "optional"), (P, "indefinite"), (P, "one_or_more"), (P, "exactly"), (P, "at_least"), (P, "at_most"), (P, "at_least_at_most"), (P, "followed_by"), (P, "preceded_by"), (P, "enclosed_by"), (P, "not_followed_by"), (P, "not_preceded_by"), (P, "not_enclosed_by"), (P, "match_at_start"), (P, "match_at_end"), (P, "match_at_line_start"), (P, "match_at_line_end"), (P, "__add__"), (P, "__radd__"), (P, "__mul__"), (P, "__rmul__"), (gr.Capture, "__init__"), (gr.Group, "__init__"), (gr.Conditional, "__init__"), (gr.Backreference, "__init__"), (op.Concat.__mro__[1], "__init__"), (qu.Optional.__mro__[1], "__init__"), (asr.FollowedBy.__mro__[1], "__init__")]))


EXPLANATION = ("Programs (DSL expression trees) are enumerated; each is built by the real code in class / method / operator spelling; "
               "the emitted pattern and the reference (vlib/dsl.py: documented meaning, every operand parenthesised) are both encoded with the exact "
               "backtracking-order SMT encoding of re (vlib/rexsat.Exact, finditer scan included) over a symbolic text; z3 searches a text up to "
               "length L (every character of Unicode via minterm abstraction) on which match spans or capture spans differ; unsat = discharged. "
               "Documented exceptions are compared by class.")
