"""Set-algebra model of pregex character classes (the specification for C06 / C07) and the z3 membership query."""
import z3
from vlib import rexsat as R, charset as cs
from vlib.charset import ISet

TOKENS = {"Backslash": "\\", "Bullet": "•", "CarriageReturn": "\r", "Copyright": "©", "Division": "÷",
          "Dollar": "$", "Euro": "€", "FormFeed": "\f", "Infinity": "∞", "Multiplication": "×", "Newline": "\n",
          "Pound": "£", "Registered": "®", "Rupee": "₹", "Space": " ", "Tab": "\t", "Trademark": "™",
          "VerticalTab": "\v", "WhiteBullet": "◦", "Yen": "¥"}


def _s(*parts):
    out = cs.EMPTY
    for p in parts:
        out = out | (ISet.rng(p[0], p[1]) if isinstance(p, tuple) else ISet.of(*p))
    return out


NAMED = {
    "Letter": _s(("a", "z"), ("A", "Z")), "LowercaseLetter": _s(("a", "z")), "UppercaseLetter": _s(("A", "Z")),
    "Digit": _s(("0", "9")), "WordChar": _s(("a", "z"), ("A", "Z"), ("0", "9"), "_"),
    "Punctuation": _s(("!", "/"), (":", "@"), ("[", "`"), ("{", "~")),
    "Whitespace": _s(" \t\n\r\x0b\x0c"),
    "GermanLetter": _s(("a", "z"), ("A", "Z"), "äöüßÄÖÜẞ"),
    "GreekLetter": _s("Ά", ("Έ", "ώ")), "CyrillicLetter": _s(("Ѐ", "ӿ")),
    "CJK": _s(("一", "鿕")), "HebrewLetter": _s(("֐", "׿")),
    "KoreanLetter": _s(("ㄱ", "ㅎ"), ("가", "힣")),
}


class Spec(Exception):
    def __init__(self, excname):
        Exception.__init__(self, excname)
        self.excname = excname


def char_of(arg):
    """model value of a class-constructor argument: ('c', ch) plain char or ('t', TokenName)"""
    kind, v = arg
    if kind == "c":
        if not isinstance(v, str) or len(v) != 1:
            raise Spec("InvalidArgumentTypeException")
        return v
    if kind == "t":
        return TOKENS[v]
    raise Spec("InvalidArgumentTypeException")


def arg_src(arg):
    kind, v = arg
    return repr(v) if kind in ("c", "x") else "%s()" % v


def model(e):
    """-> ('any',) | (negated, ISet of listed characters)"""
    k = e[0]
    if k == "Any":
        return ("any",)
    if k in ("AnyFrom", "AnyButFrom"):
        if len(e[1]) == 0:
            raise Spec("NotEnoughArgumentsException")
        chars = [char_of(a) for a in e[1]]
        return (k == "AnyButFrom", ISet.of(*chars))
    if k in ("AnyBetween", "AnyButBetween"):
        a, b = char_of(e[1]), char_of(e[2])
        if ord(a) >= ord(b):
            raise Spec("InvalidRangeException")
        return (k == "AnyButBetween", ISet.rng(a, b))
    if k == "named":
        return (e[2], NAMED[e[1]])
    if k == "char":                      # bare character / token operand of an operator
        return ("char", ISet.of(char_of(e[1])))
    if k == "inv":
        m = model(e[1])
        if m[0] == "any":
            raise Spec("CannotBeNegatedException")
        return (not m[0], m[1])
    if k in ("or", "sub"):
        A, B = model(e[1]), model(e[2])
        exc = "CannotBeUnionedException" if k == "or" else "CannotBeSubtractedException"
        if A[0] == "char" and B[0] == "char":
            raise Spec("TypeError")       # two plain operands: not a pregex operation
        # a bare char/token acts as a singleton set next to a REGULAR class only
        if A[0] == "char":
            if B[0] == "any" or B[0] is False:
                A = (False, A[1])
            else:
                raise Spec(exc)
        if B[0] == "char":
            if A[0] == "any" or A[0] is False:
                B = (False, B[1])
            else:
                raise Spec(exc)
        na = False if A[0] == "any" else A[0]
        nb = False if B[0] == "any" else B[0]
        if na != nb:
            raise Spec(exc)
        if k == "or":
            if A[0] == "any" or B[0] == "any":
                return ("any",)
            return (na, A[1] | B[1])
        if B[0] == "any":
            raise Spec("EmptyClassException")
        if A[0] == "any":
            return (True, B[1])
        if e[1][0] == "named" and e[1][1] == "WordChar" and len(e[1]) > 3 and e[1][3]:
            raise Spec("GlobalWordCharSubtractionException")
        r = A[1] - B[1]
        if not r:
            raise Spec("EmptyClassException")
        return (na, r)
    raise ValueError(k)


def matched(m):
    if m[0] == "any":
        return cs.FULL
    if m[0] == "char":
        return m[1]
    return ~m[1] if m[0] else m[1]


def src(e):
    k = e[0]
    if k == "Any":
        return "Any()"
    if k in ("AnyFrom", "AnyButFrom"):
        return "%s(%s)" % (k, ", ".join(arg_src(a) for a in e[1]))
    if k in ("AnyBetween", "AnyButBetween"):
        return "%s(%s, %s)" % (k, arg_src(e[1]), arg_src(e[2]))
    if k == "named":
        nm = ("AnyBut" if e[2] else "Any") + e[1]
        if e[1] == "WordChar" and len(e) > 3 and e[3]:
            return nm + "(is_global=True)"
        return nm + "()"
    if k == "char":
        return arg_src(e[1])
    if k == "inv":
        return "(~%s)" % src(e[1])
    if k == "or":
        return "(%s | %s)" % (src(e[1]), src(e[2]))
    if k == "sub":
        return "(%s - %s)" % (src(e[1]), src(e[2]))
    raise ValueError(k)


_EXCL = None


def domain_excluded():
    global _EXCL
    if _EXCL is None:
        _EXCL = cs.unicode_only()
    return _EXCL


def iset_pred(c, s):
    return z3.Or(*[z3.And(c >= a, c <= b) if a != b else c == a for a, b in s.iv]) if s.iv else z3.BoolVal(False)


_DOM = None
_PC = {}


def _domain():
    """candidate code point c in 0..0x10FFFF outside the unspecified Unicode-only shorthand members (built once per process)"""
    global _DOM
    if _DOM is None:
        c = z3.Int("c")
        _DOM = (c, z3.And(c >= 0, c <= cs.MAXCP, z3.Not(iset_pred(c, domain_excluded()))))
    return _DOM


def _pred_cached(c, s):
    r = _PC.get(s)
    if r is None:
        if len(_PC) > 2000:
            _PC.clear()
        r = _PC[s] = iset_pred(c, s)
    return r


def pattern_set(pattern):
    """the set of code points a one-character pattern matches (structural reading of the real parser's tree)"""
    P = R.parse(pattern)
    n = P.root
    if n.kind != "chr":
        raise ValueError("pattern %r is not a single-character matcher (%s)" % (pattern, n.kind))
    return n.a


def membership_query(pattern, want):
    """z3: exists a code point c (outside the unspecified Unicode-only shorthand members) with
    (c in emitted class) != (c in specified set). -> ('unsat', None) | ('sat', cp) | ('invalid', reason)"""
    try:
        got = pattern_set(pattern)
    except Exception as e:
        return "invalid", "%s: %s" % (type(e).__name__, e)
    # minterm abstraction: the code-point range (minus the unspecified Unicode-only shorthand members) is partitioned
    # into the classes induced by {emitted set, specified set}; the solver ranges over class indices, i.e. over every
    # code point at once.
    alpha = cs.Alphabet([got, want], exclude=domain_excluded())
    k = z3.Int("k")
    s = z3.Solver()
    s.add(k >= 0, k < alpha.K)
    ing = z3.Or(*[k == i for i in sorted(alpha.classes_of(got))]) if alpha.classes_of(got) else z3.BoolVal(False)
    inw = z3.Or(*[k == i for i in sorted(alpha.classes_of(want))]) if alpha.classes_of(want) else z3.BoolVal(False)
    s.add(ing != inw)
    r = str(s.check())
    if r == "sat":
        return "sat", alpha.rep[s.model()[k].as_long()]
    return r, None


# -------------------------------------------------------------------------------------------------
# checking a batch of class expressions under real hash seeds

SCRIPT = (
    "src = %(src)r\nwant_iv = %(want)r\nexpect_exc = %(exc)r\ncp = %(cp)r\n"
    "try:\n    p = eval(src)\n    got = ('ok', str(p))\nexcept RecursionError:\n    got = ('exc', 'RecursionError')\n"
    "except Exception as e:\n    got = ('exc', type(e).__name__)\n"
    "if expect_exc is not None:\n"
    "    if got != ('exc', expect_exc): REPRODUCED('%%s -> %%r; documented: %%s' %% (src, got, expect_exc))\n"
    "    NOT_REPRODUCED()\n"
    "if got[0] == 'exc': REPRODUCED('%%s raised %%s; documented: a class matching the specified set' %% (src, got[1]))\n"
    "try:\n    rx = re.compile(got[1], FLAGS)\nexcept re.error as e:\n    REPRODUCED('%%s emits %%r which re rejects: %%s' %% (src, got[1], e))\n"
    "inset = lambda c: any(a <= c <= b for a, b in want_iv)\n"
    "cands = [cp] if cp is not None else []\n"
    "for a, b in want_iv[:50]: cands += [a, b, a - 1, b + 1]\n"
    "cands += list(range(0, 256))\n"
    "for c in cands:\n"
    "    if c is None or c < 0 or c > 0x10FFFF: continue\n"
    "    m = rx.fullmatch(chr(c)) is not None\n"
    "    if m != inset(c): REPRODUCED('%%s emits %%r: U+%%04X %%r matched=%%r, specified=%%r' %% (src, got[1], c, chr(c), m, inset(c)))\n"
    "if rx.fullmatch('ab') or rx.fullmatch(''): REPRODUCED('%%s emits %%r which is not a one-character class' %% (src, got[1]))\n"
    "NOT_REPRODUCED()\n")


def check_exprs(exprs, seed_list, prop):
    """exprs: list of class-expression tuples. One result per (expression, distinct outcome)."""
    from vlib import seeds as S
    import time
    srcs = [src(e) for e in exprs]
    by = S.eval_under_seeds(srcs, seed_list)
    out = []
    for e, s in zip(exprs, srcs):
        try:
            m = model(e)
            want, exc = matched(m), None
        except Spec as x:
            want, exc = None, x.excname
        for outcome, sds in by[s].items():
            name = "%s [seeds %s]" % (s, ",".join(map(str, sds[:4])) + ("..." if len(sds) > 4 else ""))
            res = {"name": name, "hashseed": sds[:6]}
            base = dict(src=s, want=list(want.iv) if want is not None else None, exc=exc, cp=None)
            if exc is not None:
                if outcome == ("exc", exc):
                    res["status"] = "discharged"
                else:
                    res.update(status="violated", detail="%s -> %r; documented %s" % (s, outcome, exc),
                               inputs={"src": s, "expr": e, "outcome": outcome, "seeds": sds, "expect_exc": exc},
                               script=SCRIPT % base)
                out.append(res)
                continue
            if outcome[0] == "exc":
                res.update(status="violated", detail="%s raised %s" % (s, outcome[1]),
                           inputs={"src": s, "expr": e, "outcome": outcome, "seeds": sds}, script=SCRIPT % base)
                out.append(res)
                continue
            t1 = time.time()
            verdict, w = membership_query(outcome[1], want)
            res["solver_s"] = time.time() - t1
            if verdict == "unsat":
                res["status"] = "discharged"
                res["sample"] = {"expression": s, "emitted": outcome[1], "specified_set": repr(want), "seeds": sds[:4]}
            elif verdict == "sat":
                base["cp"] = w
                res.update(status="violated", detail="%s emits %r: U+%04X membership differs from the specified set %r" % (s, outcome[1], w, want),
                           inputs={"src": s, "expr": e, "pattern": outcome[1], "cp": w, "seeds": sds}, script=SCRIPT % base)
            elif verdict == "invalid":
                res.update(status="violated", detail="%s emits %r: %s" % (s, outcome[1], w),
                           inputs={"src": s, "expr": e, "pattern": outcome[1], "seeds": sds, "invalid": True}, script=SCRIPT % base)
            else:
                res.update(status="inconclusive", detail="solver %s" % verdict)
            out.append(res)
    return out
