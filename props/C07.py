"""C07 - class union, subtraction and negation are exact set algebra.

Interval geometry is enumerated (operands built from an ordered pool of code points: singles, pairs, ranges that are
adjacent / overlapping / nested / equal-start / equal-end / touching); each expression runs on the real code under
several real hash seeds; for every distinct result z3 decides membership over the whole code-point range against
Python-set algebra on the operands' specified sets (props/clsmodel.py)."""
import itertools, random
from vlib import common
from props import clsmodel as M

PROP = "C07"
# ordered pool: in-class metacharacters, their neighbours, and ordinary anchors
PTS = ["\x00", "\x01", "#", "$", "%", ",", "-", ".", "/", "0", "5", "9", ":", "Z", "[", "\\", "]", "^", "_", "`", "a", "b", "c", "f", "m", "y", "z", "{", "\U0010fffe", "\U0010ffff"]
CORE = ["\x00", "$", "-", "/", "0", "9", "[", "\\", "]", "^", "`", "a", "b", "c", "f", "z", "\U0010ffff"]


def C(ch):
    return ("c", ch)


def operands(pts, tier):
    ops = []
    for p in pts:
        ops.append(("AnyFrom", [C(p)]))
    for i, a in enumerate(pts):
        for b in pts[i + 1:]:
            ops.append(("AnyBetween", C(a), C(b)))
    # pairs / triples of characters
    for a, b in itertools.combinations(pts, 2):
        if ord(b) - ord(a) <= 2 or a in "\\]^[-$/" or b in "\\]^[-$/":
            ops.append(("AnyFrom", [C(a), C(b)]))
    return ops


def family(tier):
    rnd = random.Random(common.SEED)
    pts = CORE if tier == "quick" else PTS
    ops = operands(pts, tier)
    named = [("named", n, False) for n in ("Letter", "LowercaseLetter", "Digit", "WordChar", "Punctuation", "Whitespace")]
    ex = []
    # negation
    for x in ops + named:
        nx = _neg(x)
        ex += [("inv", x), ("inv", ("inv", x)), ("inv", nx), ("inv", ("inv", nx))]
    ex += [("inv", ("Any",)), ("inv", ("named", "WordChar", False, True)), ("inv", ("named", "WordChar", True, True))]
    # binary: all ordered pairs in the quick core would be ~ 20k: sample by seed in quick, all in thorough
    pairs = list(itertools.product(ops, repeat=2))
    if tier == "quick":
        pairs = rnd.sample(pairs, 4000)
    for a, b in pairs:
        ex += [("or", a, b), ("sub", a, b)]
    # negated operands (algebra on the excluded sets) and mixed kinds
    npairs = rnd.sample(pairs, 600 if tier == "quick" else 4000)
    for a, b in npairs:
        ex += [("or", _neg(a), _neg(b)), ("sub", _neg(a), _neg(b)), ("or", a, _neg(b)), ("sub", _neg(a), b)]
    # named classes, Any, bare characters and tokens
    for a in named + [("Any",), ("named", "WordChar", False, True)]:
        for b in rnd.sample(ops, 40) + named + [("Any",)]:
            ex += [("or", a, b), ("or", b, a), ("sub", a, b), ("sub", b, a)]
    chars = [("char", C(p)) for p in pts] + [("char", ("t", t)) for t in ("Backslash", "Dollar", "Newline", "Space", "Euro")]
    for a in rnd.sample(ops, 60) + named[:3] + [_neg(named[0]), ("Any",)]:
        for ch in chars:
            ex += [("or", a, ch), ("or", ch, a), ("sub", a, ch), ("sub", ch, a)]
    # three-operand chains
    for a, b, c in [tuple(rnd.sample(ops, 3)) for _ in range(300 if tier == "quick" else 3000)]:
        ex += [("sub", ("or", a, b), c), ("or", ("sub", a, b), c) if False else ("or", a, ("or", b, c)), ("sub", a, ("or", b, c))]
    seen, out = set(), []
    for e in ex:
        k = repr(e)
        if k not in seen:
            seen.add(k)
            out.append(e)
    return out


def _neg(x):
    k = x[0]
    if k == "AnyFrom":
        return ("AnyButFrom", x[1])
    if k == "AnyBetween":
        return ("AnyButBetween", x[1], x[2])
    if k == "named":
        return ("named", x[1], not x[2]) + tuple(x[3:])
    return ("inv", x)


def task_chunk(exprs, seed_list):
    return M.check_exprs(exprs, seed_list, PROP)


REGIONS = {}


def e1_cases(tier):
    """class algebra with a SYMBOLIC operand character and a SYMBOLIC candidate code point"""
    from vlib.symx import engine
    P = [("A0", "str"), ("c", "int")]
    pre = ["len(A0) == 1 and 0 <= c and c <= 1114111"]
    a = "ord(A0)"
    inr = lambda lo, hi: "(%d <= c and c <= %d)" % (ord(lo), ord(hi))
    table = [
        ("AnyBetween('a', 'f') | A0", "%s or c == %s" % (inr("a", "f"), a), None),
        ("A0 | AnyBetween('a', 'f')", "%s or c == %s" % (inr("a", "f"), a), None),
        ("AnyFrom(A0) | AnyFrom('[', 'x')", "c == %s or c == 91 or c == 120" % a, None),
        ("AnyBetween('[', 'a') - A0", "%s and c != %s" % (inr("[", "a"), a), None),
        ("AnyFrom('a') - A0", "c == 97", "%s == 97" % a),
        ("A0 - AnyBetween('a', 'f')", "c == %s" % a, "97 <= %s and %s <= 102" % (a, a)),
        ("~AnyFrom(A0)", "c != %s" % a, None),
        ("~AnyFrom(A0, ']')", "c != %s and c != 93" % a, None),
        ("~(~AnyFrom(A0, '-'))", "c == %s or c == 45" % a, None),
        ("AnyButFrom('x') | AnyButFrom(A0)", "c != 120 and c != %s" % a, None),
        ("AnyButBetween('a', 'f') - AnyButFrom(A0)", "not (%s and c != %s)" % (inr("a", "f"), a), "False"),
        ("(AnyBetween('a', 'c') | A0) - 'b'", "(%s or c == %s) and c != 98" % (inr("a", "c"), a), None),
    ]
    if tier == "quick":
        table = table[:3] + table[3:4] + table[4:5] + table[6:9]
    cs = []
    for expr, want, empty in table:
        body = ("try:\n    p = %s\nexcept EmptyClassException:\n    return %s\n" % (expr, empty if empty is not None else "False") +
                ("if %s:\n    return False\n" % empty if empty not in (None, "False") else "") +
                "return member_ok(str(p), c, (%s))" % want)
        cs.append(engine.raw_case(body, P, pre, "%s: candidate membership == set algebra%s (operand character and candidate symbolic)" %
                                  (expr, "; EmptyClassException iff nothing is left" if empty else "")))
    return cs


def run(tier):
    run = common.Run(PROP, tier)
    run.known.probe()
    common.import_pregex()
    import pregex.core.classes as cl
    base = cl.Any.__mro__[1]
    run.functions = common.src_fingerprint(common.resolve([(base, "__or__"), (base, "__ror__"), (base, "_Class__or"), (base, "__sub__"), (base, "__rsub__"), (base, "_Class__sub"), (base, "__invert__"), (cl.AnyWordChar, "__invert__"), (cl.AnyButWordChar, "__invert__"), (cl.Any, "__invert__"), (base, "_Class__process"), (base, "_Class__chars_to_ranges"), (base, "_Class__extract_classes"), (base, "_Class__separate_classes"), (base, "_Class__modify_classes"), (base, "_Class__split_range")]))
    ex = family(tier)
    seed_list = list(range(6)) if tier == "quick" else list(range(24))
    n = 150
    tasks = [("task_chunk", (ex[i:i + n], seed_list)) for i in range(0, len(ex), n)]
    run.add(common.run_tasks(__name__, tasks))
    from vlib.symx import engine
    cases = e1_cases(tier)
    outs = engine.run_cases(cases, per_condition_timeout=420 if tier == "quick" else 3000)
    run.add(engine.to_results(cases, outs))
    run.info = {"crosshair_harnesses": len(cases), "crosshair_paths_explored": sum(r.get("paths", 0) for r in run.results)}
    run.triage(REGIONS)
    run.bounds = {"expressions": "%d class expressions: ~x, ~~x; x|y, x-y over operand pairs built from a %d-point ordered pool (singles, all ranges, "
                  "close/metacharacter pairs)%s; negated and mixed operands; named classes, Any, global word class; bare characters and tokens on "
                  "either side; 3-operand chains" % (len(ex), len(CORE if tier == "quick" else PTS), " sampled by seed" if tier == "quick" else ""),
                  "candidate": "every code point (z3 over the minterms of emitted vs specified set), minus Unicode-only members of \\d \\s \\w",
                  "E1": "%d CrossHair harnesses: union / subtraction / negation with a SYMBOLIC operand character and a SYMBOLIC candidate code point" % len(cases),
                  "hash_seeds": "PYTHONHASHSEED 0..%d (real interpreters, enumerated)" % (len(seed_list) - 1)}
    run.assumptions = ["specification: Python set algebra on the operands' specified sets; for negated classes on the excluded sets; "
                       "EmptyClassException iff nothing is left; mixed regular/negated raises the documented exception; Any absorbs unions",
                       "hash seeds are an enumerated configuration dimension"]
    return run.finish(explanation="Each class expression is evaluated by the real code under each hash seed; the emitted class is read by CPython's "
                      "parser and z3 decides whether any code point's membership differs from the set-algebra specification; exceptions are compared by class.")
