"""C20 - Pregex objects are immutable values; results do not depend on history.

(a) inductive step, symbolic content (E1): for EVERY literal character, one builder operation applied to an object (compiled or
    not, also aliased with itself) leaves the object's pattern / inferred type / repeatability unchanged and returns what the
    same operation returns on a fresh equal object.
(b) histories (enumerated, concrete - validation): all two-operation histories (every builder / cache / matching operation and
    operand, aliasing included) on a shared pool of concrete objects: every pool object keeps its snapshot, and each result
    equals the result on a fresh pool. With data concrete there is nothing for a solver to decide; the claim for longer
    histories rests on the inductive step (a).
(c) hash seeds and construction order (real interpreters, enumerated): ~4k expressions are built in one interpreter per
    PYTHONHASHSEED value, each in a different (seeded) order; every expression must give the same text in all of them, or texts
    that are equivalent on all texts up to the bound (exact SMT encoding) - so the value of an expression depends neither on the
    hash seed nor on what was built before it."""
import random
from vlib import common, dsl, progs, seeds
from vlib.symx import engine
from props import C02

PROP = "C20"

HELPERS = '''
_PROBE = "ab a\\\\'b 'x' cd [a] AB\\nab"

def pv(x, name):
    # protected accessors are read when the tree has them (a refactoring may rename them: then only the text and the
    # matching behaviour are compared)
    return getattr(x, name)() if hasattr(x, name) else None

def _snap(x, behaviour=True):
    # value of an object: text, inferred type, repeatability, verbose class text - and (for the objects taking part in an
    # operation) its observable matching behaviour
    v = (str(x), pv(x, '_get_type'), pv(x, '_is_repeatable'), pv(x, '_get_verbose_pattern'))
    if behaviour:
        v = v + (tuple(x.get_matches_and_pos(_PROBE)), x.is_exact_match("ab"))
    return v

def _pool():
    return [Pregex('ab'), AnyFrom('e'), Pregex(), Either('ab', 'cd'), AnyFrom('a', 'e', 'i', 'o', 'u'), AnyButFrom('x', 'y'), Capture('a', 'n'), Optional('ab'),
            MatchAtStart('a'), NotFollowedBy('a', 'b'), Group('ab', True), Pregex("\\\\'") + Optional('b')]

_OPS = [
    lambda p, q: p.concat(q), lambda p, q: q.concat(p), lambda p, q: p.either(q), lambda p, q: p.enclose(q), lambda p, q: p + q, lambda p, q: q + p,
    lambda p, q: p.optional(), lambda p, q: p.indefinite(False), lambda p, q: p.one_or_more(), lambda p, q: p.exactly(2), lambda p, q: p.exactly(1),
    lambda p, q: p.exactly(0), lambda p, q: p.at_least(1), lambda p, q: p.at_most(1), lambda p, q: p.at_least_at_most(1, 1), lambda p, q: p * 2, lambda p, q: p * 1,
    lambda p, q: p.capture(), lambda p, q: p.capture('k'), lambda p, q: p.group(), lambda p, q: p.group(True),
    lambda p, q: p.match_at_start(), lambda p, q: p.match_at_line_end(), lambda p, q: p.followed_by(q), lambda p, q: q.followed_by(p),
    lambda p, q: p.preceded_by(q), lambda p, q: p.not_followed_by(q), lambda p, q: p.not_enclosed_by(q), lambda p, q: p.enclosed_by(q),
    lambda p, q: Concat(p, q, p), lambda p, q: Either(q, p), lambda p, q: Enclose(p, q), lambda p, q: Optional(p), lambda p, q: Capture(p, 'z'), lambda p, q: Group(p, True),
    lambda p, q: p | q, lambda p, q: p - q, lambda p, q: q - p, lambda p, q: ~p,
    lambda p, q: (p.compile(), p)[1], lambda p, q: (p.get_compiled_pattern(True), p)[1], lambda p, q: (p.get_compiled_pattern(False), p)[1],
    lambda p, q: (p.get_matches('xaby ab'), p)[1], lambda p, q: (p.is_exact_match('ab'), p)[1], lambda p, q: (p.replace('ab', 'R'), p)[1],
]

def _hist(k, o1, a1, o2, a2):
    pool = _pool()
    inv = {k, a1, a2}
    snap = [_snap(x, i in inv) for i, x in enumerate(pool)]
    r1 = _apply(o1, pool[k], pool[a1])
    if [_snap(x, i in inv) for i, x in enumerate(pool)] != snap:
        return False
    r2 = _apply(o2, pool[k], pool[a2])
    if [_snap(x, i in inv) for i, x in enumerate(pool)] != snap:
        return False
    fresh = _pool()
    return r2 == _apply(o2, fresh[k], fresh[a2]) and r1 == _apply(o1, _pool()[k], _pool()[a1])

def _apply(o, p, q):
    try:
        r = _OPS[o](p, q)
        try:       # the result's observable matching behaviour (a result that kept stale state of its operand differs here)
            beh = (tuple(r.get_matches_and_pos(_PROBE)), r.is_exact_match("ab"), r.get_captures("xab"))
        except Exception as e:
            beh = ('beh-exc', type(e).__name__)
        return ('ok', str(r), pv(r, '_get_type'), pv(r, '_is_repeatable'), beh)
    except (TypeError, AttributeError) as e:
        return ('n/a',)
    except Exception as e:
        return ('exc', type(e).__name__)
'''
NOPS = 45
NPOOL = 12


_NS = {}


def _helpers():
    if not _NS:
        common.import_pregex()
        exec("from pregex.core.pre import Pregex\nfrom pregex.core.classes import *\nfrom pregex.core.tokens import *\nfrom pregex.core.operators import *\n"
             "from pregex.core.quantifiers import *\nfrom pregex.core.groups import *\nfrom pregex.core.assertions import *\nfrom pregex.core.exceptions import *\n" + HELPERS, _NS)
    return _NS


def task_histories(k, o1s):
    """(b) exhaustive enumeration of two-step histories on a shared pool of concrete objects (validation; concrete runs)"""
    ns = _helpers()
    hist = ns["_hist"]
    n = 0
    for o1 in o1s:
        for a1 in range(NPOOL):
            for o2 in range(NOPS):
                for a2 in range(NPOOL):
                    n += 1
                    if hist(k, o1, a1, o2, a2) is not True:
                        script = ("import sys\nsys.path.insert(0, %r)\nfrom vlib.symx.hlib import *\n" % common.VERIF) + HELPERS + (
                            "\nif _hist(%d, %d, %d, %d, %d) is not True: REPRODUCED('history (op %d on pool[%d] with pool[%d]; then op %d with pool[%d]) changes an operand or depends on history')\n"
                            "NOT_REPRODUCED()\n" % (k, o1, a1, o2, a2, o1, k, a1, o2, a2))
                        return {"name": "histories pool[%d] first-op codes %s" % (k, list(o1s)[:3]), "status": "violated",
                                "detail": "history: op %d on pool[%d] with pool[%d]; then op %d with pool[%d]" % (o1, k, a1, o2, a2),
                                "inputs": {"k": k, "o1": o1, "a1": a1, "o2": o2, "a2": a2, "text": ""}, "script": script}
    return {"name": "histories pool[%d] first-op codes %s..: %d two-step histories keep every snapshot and equal a fresh pool (enumerated, concrete)" % (k, list(o1s)[:2], n),
            "status": "discharged", "sample": {"histories_enumerated": n, "base": k}}


def step_cases(tier):
    """inductive step with symbolic literal content"""
    cs = []
    ops = ["p.concat('x')", "Pregex('x').concat(p)", "p.either('x')", "p.enclose('x')", "p + 'x'", "'x' + p", "p.optional()", "p.one_or_more()", "p.exactly(2)",
           "p.exactly(1)", "p * 2", "p.capture('k')", "p.group(True)", "p.match_at_start()", "p.followed_by('x')", "Pregex('x').preceded_by(p)", "p.not_enclosed_by('x')",
           "Concat(p, p)", "Either(p, p)", "Enclose(p, p)", "p.concat(p)", "Optional(p)", "Capture(p)", "p.exactly(1).concat('y')", "p.concat(Pregex()).optional()"]
    if tier == "quick":
        ops = ops[::2]
    for op in ops:
        body = ("p = Pregex(A0)\n"
                "before = (str(p), pv(p, '_get_type'), pv(p, '_is_repeatable'))\n"
                "r = %s\n"
                "after = (str(p), pv(p, '_get_type'), pv(p, '_is_repeatable'))\n"
                "p = Pregex(A0)\nf = %s\n"
                "return before == after and str(r) == str(f) and pv(r, '_get_type') == pv(f, '_get_type') and pv(r, '_is_repeatable') == pv(f, '_is_repeatable')") % (op, op)
        cs.append(engine.raw_case(body, [("A0", "str")], ["len(A0) == 1"],
                                  "C20 step %s: operand unchanged and result == result on a fresh object, every literal character" % op))
    for op in ["c | 'x'", "c - 'a'", "~c", "c | AnyDigit()", "AnyLetter() - c", "c | c"]:
        body = ("c = AnyFrom(A0, 'a')\nbefore = (str(c), pv(c, '_get_verbose_pattern'), pv(c, '_get_type'))\n"
                "try:\n    r = str(%s)\nexcept EmptyClassException:\n    r = 'empty'\n"
                "after = (str(c), pv(c, '_get_verbose_pattern'), pv(c, '_get_type'))\n"
                "c = AnyFrom(A0, 'a')\ntry:\n    f = str(%s)\nexcept EmptyClassException:\n    f = 'empty'\n"
                "return before == after and r == f") % (op, op)
        cs.append(engine.raw_case(body, [("A0", "str")], ["len(A0) == 1"], "C20 step %s on AnyFrom(c, 'a'): class operand unchanged, deterministic result, every character c" % op))
    return cs


def seed_sources(tier):
    d1, d2, d3, t3 = C02.family("quick")
    rnd = random.Random(common.SEED)
    ps = d1[::3] + rnd.sample(d2, 1500 if tier == "quick" else 6000)
    cls = ["AnyFrom('a', '[', 'x')", "AnyFrom('-', 'a') | AnyFrom(']', 'b')", "AnyLetter() - AnyFrom('a', 'z', 'M')", "~AnyFrom('a', ']', '^')",
           "AnyFrom('b', 'a', 'c', '_') | AnyDigit()", "Concat(AnyFrom('x', '[', '^'), 'y') + AnyButFrom(']', '-', 'a')",
           "Optional(AnyFrom('(', ')', '|')) + Either(AnyFrom('a', 'c'), 'b')", "AnyWordChar() - AnyFrom('C', 'c', 'G', 'g', '3')",
           "AnyPunctuation() - AnyFrom('!', '~', '[')", "Numeral(16, 1, 4)", "Numeral(12)", "IPv4()", "Word(2, 5)", "Date('dd/mm/yyyy')", "Integer(3, 120)"]
    # meta patterns in both is_extensible settings: built in a different order in each interpreter, so a result that depends on
    # what was constructed before (class-level caches keyed too coarsely) shows up as two different texts for one expression
    for ctor in ("Integer(0, 999%s)", "Integer(5, 2500%s)", "PositiveInteger(0, 255%s)", "NegativeInteger(1, 1000%s)", "UnsignedInteger(10, 4095%s)",
                 "Decimal(0, 99, 1, 2%s)", "UnsignedDecimal(0, 120, 1, None%s)", "Numeral(10, 1, 3%s)", "Numeral(2, 1, 1%s)", "Word(2, 5%s)",
                 "WordContains(['ab', 'c']%s)", "WordStartsWith('ab'%s)", "IPv4(%s)", "IPv6(%s)", "Date('dd/mm/yyyy'%s)", "Date('d-m-yy'%s)"):
        for ext in ("", "is_extensible=True"):
            sep = ", " if (ext and not ctor.endswith("(%s)")) else ""
            cls.append(ctor % (sep + ext))
    return [dsl.src(e, "class") for e in ps] + cls


ORDER_SCRIPT = (
    "import json, os, subprocess\nsrcs = %(srcs)r\ntarget = %(target)d\nseeds = %(seeds)r\ntext = %(text)r\nouts = []\n"
    "for sd in seeds:\n"
    "    env = dict(os.environ, PYTHONHASHSEED=str(sd), VERIF_REPO=os.path.dirname(sys.path[0]), PYTHONDONTWRITEBYTECODE='1')\n"
    "    r = subprocess.run([sys.executable, '-W', 'ignore', %(classgen)r], input=json.dumps(srcs), capture_output=True, text=True, env=env)\n"
    "    outs.append(tuple(json.loads(r.stdout)[target][:2]))\n"
    "fi = lambda pat: [(m.span(), m.groups()) for m in re.finditer(pat, text, FLAGS)]\n"
    "for a in outs:\n"
    "    for b in outs:\n"
    "        if a[0] != b[0] or (a[0] == 'exc' and a != b): REPRODUCED('%%s: %%r vs %%r depending on the hash seed / evaluation history (seeds %%r)' %% (srcs[target], a, b, seeds))\n"
    "        if a[0] == 'ok' and a[1] != b[1]:\n"
    "            try:\n                d = fi(a[1]) != fi(b[1])\n            except re.error:\n                d = True\n"
    "            if d: REPRODUCED('%%s: patterns %%r and %%r (seeds %%r, different evaluation order) differ on %%r' %% (srcs[target], a[1], b[1], seeds, text))\n"
    "NOT_REPRODUCED()\n")

_SRCS = []


def task_seed_equiv(idx, outcomes):
    """outcomes that differ across interpreters (hash seed, evaluation order) must be equivalent regexes"""
    import os
    src = _SRCS[idx]
    pats = [o[1] for o in outcomes if o[0] == "ok"]
    excs = [o for o in outcomes if o[0] != "ok"]
    name = "hash seeds / evaluation order: %s" % src[:100]
    allseeds = [o[2][0] for o in outcomes]

    def script(text):
        return ORDER_SCRIPT % dict(srcs=_SRCS, target=idx, seeds=allseeds, text=text, classgen=os.path.join(common.VERIF, "vlib", "classgen.py"))
    if (excs and pats) or len({tuple(e[:2]) for e in excs}) > 1:
        return {"name": name, "status": "violated", "detail": "%s: outcome depends on the hash seed / evaluation history: %r" % (src, [o[:2] for o in outcomes]),
                "inputs": {"src": src, "text": ""}, "script": script("")}
    if not pats:
        return {"name": name, "status": "discharged"}
    base = pats[0]
    ss = 0.0
    import re as _re
    for other in pats[1:]:
        if other == base:
            continue
        try:
            verdict, text, s1, info = progs.equiv_query(base, other, 4)
        except _re.error as x:
            return {"name": name, "status": "skipped", "detail": "emitted text rejected by re (%s): C03's business" % x}
        ss += s1
        if verdict == "sat":
            return {"name": name, "status": "violated", "solver_s": ss, "detail": "%s: %r and %r (different hash seed / evaluation order) differ on %r" % (src, base, other, text),
                    "inputs": {"src": src, "text": text}, "script": script(text)}
        if verdict != "unsat":
            return {"name": name, "status": "inconclusive", "detail": "%s %s" % (verdict, info), "solver_s": ss}
    return {"name": name, "status": "discharged", "solver_s": ss, "sample": {"expression": src, "texts_across_seeds": pats[:3]}}


def run(tier):
    run = common.Run(PROP, tier)
    run.known.probe()
    common.import_pregex()
    import pregex.core.pre as pre, pregex.core.classes as cl
    P = pre.Pregex
    base = cl.Any.__mro__[1]
    run.functions = common.src_fingerprint(common.resolve([(P, "__init__"), (P, "compile"), (P, "get_compiled_pattern"), (P, "concat"), (P, "either"), (P, "enclose"), (P, "capture"), (P, "group"), (P, "optional"), (P, "exactly"), (P, "_concat_conditional_group"), (P, "_quantify_conditional_group"), (P, "_assert_conditional_group"), (P, "__add__"), (P, "__radd__"), (P, "__mul__"), (base, "__init__"), (base, "__or__"), (base, "__sub__"), (base, "__invert__"), (base, "_Class__process")]))
    cases = step_cases(tier)
    outs = engine.run_cases(cases, per_condition_timeout=480 if tier == "quick" else 3000)
    run.add(engine.to_results(cases, outs))
    ks = range(NPOOL) if tier == "thorough" else sorted({11, 4, common.SEED % 11})
    chunks = [list(range(NOPS))[i::5] for i in range(5)]
    htasks = [("task_histories", (k, ch)) for k in ks for ch in chunks]
    # every other pool object: histories that start with one of the operations that change hidden state of the object itself
    # (compile / retained compiled pattern / matching), followed by every operation
    htasks += [("task_histories", (k, list(range(NOPS - 6, NOPS)))) for k in range(NPOOL) if k not in ks]
    run.add(common.run_tasks(__name__, htasks))
    # hash seeds
    srcs = seed_sources(tier)
    seed_list = list(range(4)) if tier == "quick" else list(range(16))
    by = seeds.eval_under_seeds(srcs, seed_list)
    _SRCS[:] = srcs
    same, tasks = 0, []
    for i, s in enumerate(srcs):
        outs_ = [(k[0], k[1], v) for k, v in by[s].items()]
        if any(o[0] == "exc" and o[1] in ("NameError", "SyntaxError") for o in outs_):
            raise RuntimeError("seed source %r does not evaluate: %r" % (s, outs_))
        if len(outs_) == 1:
            same += 1
        else:
            tasks.append(("task_seed_equiv", (i, outs_)))
    run.add([{"name": "hash seeds: %d expressions give the identical outcome under seeds %s" % (same, seed_list), "status": "discharged",
              "sample": {"identical_across_seeds": same, "seeds": seed_list}}])
    run.add(common.run_tasks(__name__, tasks))
    run.triage({})
    run.info = {"crosshair_harnesses": len(cases), "crosshair_paths_explored": sum(r.get("paths", 0) for r in run.results),
                "expressions_rebuilt_under_seeds": len(srcs), "seed_dependent_texts_checked_for_equivalence": len(tasks)}
    run.bounds = {"step": "%d single operations, literal content symbolic (one character, every code point)" % len(step_cases(tier)),
                  "histories": "all two-operation histories: %d operation codes x %d operands, twice, on %s (exhaustive enumeration of concrete runs - validation, not a solver verdict)" %
                  (NOPS, NPOOL, "every pool object" if tier == "thorough" else "3 pool objects (the others: first operation among the 6 that touch hidden state)"),
                  "hash_seeds": "%d expressions rebuilt under PYTHONHASHSEED %s" % (len(srcs), seed_list)}
    run.assumptions = ["an object's value = (pattern text, inferred type, repeatable flag, verbose class text); the compiled cache may change",
                       "histories longer than two operations follow by induction only for the enumerated operations (each operation preserves every operand's value)",
                       "cross-process effects other than the hash seed are out of scope"]
    return run.finish(explanation="CrossHair/z3: (a) all paths for a symbolic literal through one operation (inductive step); (b) exhaustive enumeration of two-step histories on a "
                      "shared pool of concrete objects (validation); (c) real interpreters under several hash seeds, seed-dependent texts decided equivalent by the "
                      "exact SMT encoding of finditer over a symbolic text.")
