"""C18 - IPv4 / IPv6 patterns accept exactly the standard textual addresses.

E2a: language of the extensible pattern == reference grammar (z3 RegLan, all strings, unbounded).
E2b: embedded occurrences of the non-extensible pattern, bounded symbolic text (relational encoding).
The reference grammars are written from the standards and validated against `ipaddress` with
solver-generated members and non-members.
"""
import time, ipaddress, z3
from vlib import rexsat as R, charset as cs, common
from vlib.charset import ISet

PROP = "C18"

OCT = r"(?:25[0-5]|2[0-4][0-9]|1[0-9][0-9]|[1-9][0-9]|[0-9])"
V4_REF = r"(?:%s\.){3}%s" % (OCT, OCT)
H = "[0-9A-Fa-f]{1,4}"


def v6_ref():
    alts = ["(?:%s:){7}%s" % (H, H)]
    for a in range(0, 8):
        for b in range(0, 8 - a):          # a + b <= 7 explicit groups around '::'
            left = "" if a == 0 else "%s(?::%s){%d}" % (H, H, a - 1)
            right = "" if b == 0 else "%s(?::%s){%d}" % (H, H, b - 1)
            alts.append(left + "::" + right)
    return "|".join(alts)


V6_REF = v6_ref()


def _build(which, ext):
    common.import_pregex()
    from pregex.meta.essentials import IPv4, IPv6
    p = (IPv4 if which == "v4" else IPv6)(is_extensible=ext)
    return str(p)


def _ref(which):
    return V4_REF if which == "v4" else V6_REF


def _py_valid(which, s):
    try:
        (ipaddress.IPv4Address if which == "v4" else ipaddress.IPv6Address)(s)
        return True
    except ValueError:
        return False


# region of the recorded IPv6 defect: '::' together with eight explicit groups
def region_v6_eight_groups(inputs):
    t = inputs.get("span_text", inputs.get("text", ""))
    return inputs.get("which") == "v6" and "::" in t and \
        len([g for g in t.replace("::", ":").split(":") if g != ""]) == 8 and t.count("::") == 1


V6_KF_REGION_RE = None


def _v6_eight_region_regex():
    """the region as a regular language: a '::' b with a + b == 8 groups"""
    alts = []
    for a in range(0, 9):
        b = 8 - a
        left = "" if a == 0 else "%s(?::%s){%d}" % (H, H, a - 1)
        right = "" if b == 0 else "%s(?::%s){%d}" % (H, H, b - 1)
        alts.append(left + "::" + right)
    return "|".join(alts)


REGIONS = {"KF-C18-1": region_v6_eight_groups}


def task_reglan(which, exclude_kf):
    """E2a: exists a string in the symmetric difference of L(pattern) and L(reference)?"""
    t0 = time.time()
    real = _build(which, True)
    name = "reglan-equivalence IP%s(is_extensible=True) vs reference grammar, all strings" % which
    try:
        P = R.parse(real)
    except Exception as e:
        return {"name": name, "status": "violated", "detail": "emitted pattern rejected by re: %r" % (e,),
                "inputs": {"which": which, "text": ""},
                "script": "import pregex.meta.essentials as m\ntry:\n    re.compile(str(m.IP%s(is_extensible=True)), FLAGS)\nexcept re.error as e:\n    REPRODUCED(repr(e))\nNOT_REPRODUCED()\n" % which}
    Q = R.parse(_ref(which))
    pats = [P, Q]
    K = None
    if exclude_kf:
        K = R.parse(_v6_eight_region_regex())
        pats.append(K)
    rl = R.RegLan(pats, exclude=cs.unicode_only())
    s = z3.Solver()
    x = z3.String("x")
    s.add(z3.InRe(x, rl.tr(P.root)) != z3.InRe(x, rl.tr(Q.root)))
    if K is not None:
        s.add(z3.Not(z3.InRe(x, rl.tr(K.root))))
    t1 = time.time()
    r = s.check()
    from vlib import e2util as _x
    if str(r) in ("sat", "unsat"):
        _x.cross_check(s, str(r), 20)
        if _x.XCHECK["disagree"]:
            raise RuntimeError("solver disagreement: %r" % _x.XCHECK["disagree"][:2])
    dt = time.time() - t1
    res = {"name": name + (" (outside KF-C18-1 region)" if exclude_kf else ""), "solver_s": dt,
           "sample": {"query": "exists x: (x in L(%s)) != (x in L(ref_%s))" % (real[:60] + "...", which),
                      "alphabet_minterms": rl.alpha.K, "result": str(r)}}
    if str(r) == "unsat":
        res["status"] = "discharged"
    elif str(r) == "sat":
        w = rl.decode(s.model()[x].as_string())
        res.update(_violation(which, True, w, 0, len(w)))
    else:
        res["status"] = "inconclusive"
        res["detail"] = "solver returned %s" % r
    return res


def _violation(which, ext, text, i, j):
    cls = "IP" + which
    span = text[i:j]
    script = (
        "text = %r\ni, j = %d, %d\np = %s(is_extensible=%r)\n"
        "import ipaddress\n"
        "def valid(s):\n    try:\n        ipaddress.%s(s); return True\n    except ValueError: return False\n"
        "span = text[i:j]\n"
        "rx = re.compile('(?:%%s)(?=[\\\\s\\\\S]{%%d}\\\\Z)' %% (str(p), len(text) - j), FLAGS)\n"
        "matched = rx.match(text, i) is not None\n"
        "G = set('0123456789' + %r)\n"
        "glued = (i > 0 and text[i-1] in G) or (j < len(text) and text[j] in G)\n"
        "expect = valid(span) and (True if %r else not glued)\n"
        "if i == 0 and j == len(text):\n"
        "    api = p.is_exact_match(text)\n"
        "    if api != valid(text): REPRODUCED('%s(is_extensible=%r).is_exact_match(%%r) = %%r but ipaddress says %%r' %% (text, api, valid(text)))\n"
        "if matched != expect: REPRODUCED('pattern %%s text[%%d:%%d]=%%r of %%r: matched=%%r expected=%%r' %% (type(p).__name__, i, j, span, text, matched, expect))\n"
        "NOT_REPRODUCED()\n"
    ) % (text, i, j, cls, ext, "IPv4Address" if which == "v4" else "IPv6Address",
         "." if which == "v4" else ":", ext, cls, ext)
    return {"status": "violated", "detail": "%s(is_extensible=%r): text %r span [%d:%d]" % (cls, ext, text, i, j),
            "inputs": {"which": which, "ext": ext, "text": text, "i": i, "j": j, "span_text": span},
            "script": script}


def task_refcheck(which, n_each):
    """validate the reference grammar against `ipaddress`: solver-enumerated members / non-members
    over the alphabet {hex digits, ':' or '.', 'g'}"""
    t0 = time.time()
    Q = R.parse(_ref(which))
    sep = "." if which == "v4" else ":"
    extra = [ISet.of(sep), ISet.of("g"), ISet.rng("0", "9"), ISet.of("0"), ISet.rng("a", "f"), ISet.rng("A", "F")]
    rl = R.RegLan([Q], extra_sets=extra, exclude=cs.unicode_only())
    allowed = rl.cset(ISet.of(sep) | ISet.of("g") | ISet.rng("0", "9") | ISet.rng("a", "f") | ISet.rng("A", "F"))
    bad = []
    n = 0
    dt = 0.0
    for member in (True, False):
        s = z3.Solver()
        x = z3.String("x")
        s.add(z3.InRe(x, z3.Star(allowed)))
        s.add(z3.InRe(x, rl.tr(Q.root)) if member else z3.Not(z3.InRe(x, rl.tr(Q.root))))
        s.add(z3.Length(x) <= (15 if which == "v4" else 39))
        for k in range(n_each):
            if not member:
                # steer non-members near the language: fix a length
                s.push()
                s.add(z3.Length(x) == (k % (15 if which == "v4" else 20)) + 1)
            t1 = time.time()
            r = s.check()
            from vlib import e2util as _x
            if str(r) in ("sat", "unsat"):
                _x.cross_check(s, str(r), 20)
                if _x.XCHECK["disagree"]:
                    raise RuntimeError("solver disagreement: %r" % _x.XCHECK["disagree"][:2])
            dt += time.time() - t1
            if str(r) != "sat":
                if not member:
                    s.pop()
                    continue
                break
            zs = s.model()[x].as_string()
            w = rl.decode(zs)
            n += 1
            if _py_valid(which, w) != member:
                bad.append((w, member))
            if not member:
                s.pop()
            s.add(x != z3.StringVal(zs))
    res = {"name": "reference grammar of IP%s agrees with ipaddress on %d solver-generated strings" % (which, n),
           "solver_s": dt, "sample": {"reference_validation": which, "strings": n, "disagreements": bad[:5]}}
    if bad:
        res["status"] = "error"
        res["detail"] = "reference grammar disagrees with ipaddress: %r" % bad[:5]
    else:
        res["status"] = "discharged"
    return res


def task_embedded(which, ext, N, all_spans, kf_active):
    """E2b: for every text of length N and every span (i, j):
         neutral context (text edge or space on both sides)  ->  (M(i,j) <=> span in reference language)
         glued to a digit / separator on either side         ->  not M(i,j)      (non-extensible form)
       extensible form: M(i,j) <=> span in reference language, whatever the context."""
    t0 = time.time()
    real = _build(which, ext)
    name = "embedded IP%s(is_extensible=%r) N=%d %s" % (which, ext, N, "all spans" if all_spans else "outer spans")
    try:
        P = R.parse(real)
    except Exception as e:
        return {"name": name, "status": "violated", "detail": "emitted pattern rejected by re: %r" % (e,),
                "inputs": {"which": which, "text": ""},
                "script": "try:\n    re.compile(str(IP%s(is_extensible=%r)), FLAGS)\nexcept re.error as e:\n    REPRODUCED(repr(e))\nNOT_REPRODUCED()\n" % (which, ext)}
    Q = R.parse(_ref(which))
    sep = "." if which == "v4" else ":"
    SP = ISet.of(" ")
    G = cs.A_DIGIT | ISet.of(sep)
    pats = [P, Q]
    KQ = None
    if kf_active and which == "v6":
        KQ = R.parse(_v6_eight_region_regex())      # recorded defect region, excluded exactly
        pats.append(KQ)
    prob = R.Problem(pats, N, extra_sets=[SP, G], exclude=cs.unicode_only())
    rp, rq = R.Rel(prob, P), R.Rel(prob, Q)
    rk = R.Rel(prob, KQ) if KQ is not None else None
    conds = {}
    for i in range(N + 1):
        for j in range(i, N + 1):
            if not all_spans and not (i <= 1 and j >= N - 1):
                continue
            mp = rp.M(P.root, i, j)
            mq = rq.M(Q.root, i, j)
            notk = R.NOT(rk.M(KQ.root, i, j)) if rk is not None else True
            if ext:
                c = R.AND(notk, R.NOT(R.IFF(mp, mq)))
            else:
                left_neutral = True if i == 0 else prob.inset(i - 1, SP)
                right_neutral = True if j == N else prob.inset(j, SP)
                glued = R.OR(prob.inset(i - 1, G), prob.inset(j, G))
                c = R.OR(R.AND(left_neutral, right_neutral, notk, R.NOT(R.IFF(mp, mq))), R.AND(glued, mp))
            conds[(i, j)] = c
    viol = R.OR(*conds.values())
    res = {"name": name, "sample": {"pattern": real[:80] + ("..." if len(real) > 80 else ""), "N": N,
                                    "spans": len(conds), "minterms": prob.K, "build_s": round(time.time() - t0, 2)}}
    if viol is False:
        res["status"] = "discharged"
        res["solver_s"] = 0.0
        return res
    s = z3.Solver()
    for d in prob.domain():
        s.add(d)
    s.add(R.B(viol))
    t1 = time.time()
    r = s.check()
    from vlib import e2util as _x
    if str(r) in ("sat", "unsat"):
        _x.cross_check(s, str(r), 20)
        if _x.XCHECK["disagree"]:
            raise RuntimeError("solver disagreement: %r" % _x.XCHECK["disagree"][:2])
    res["solver_s"] = time.time() - t1
    if str(r) == "unsat":
        res["status"] = "discharged"
    elif str(r) == "sat":
        m = s.model()
        text = prob.text_of(m)
        for (i, j), c in conds.items():
            if c is True or (c is not False and z3.is_true(m.eval(c, model_completion=True))):
                res.update(_violation(which, ext, text, i, j))
                break
        else:
            res["status"] = "error"
            res["detail"] = "sat but no span identified"
    else:
        res["status"] = "inconclusive"
        res["detail"] = "solver: %s" % r
    return res


def run(tier):
    run = common.Run(PROP, tier)
    run.known.probe()
    kf = run.known.active("KF-C18-1")
    pregex = common.import_pregex()
    import pregex.meta.essentials as me
    run.functions = common.src_fingerprint(common.resolve([(me.IPv4, "__init__"), (me.IPv6, "__init__"), (me.Numeral, "__init__")]))
    tasks = [("task_refcheck", ("v4", 60 if tier == "quick" else 200)),
             ("task_refcheck", ("v6", 60 if tier == "quick" else 200)),
             ("task_reglan", ("v4", False)), ("task_reglan", ("v6", kf))]
    if tier == "quick":
        L4, L6, L6outer = 17, 12, 0
    else:
        L4, L6, L6outer = 17, 16, 41
    for ext in (False, True):
        for N in range(0, L4 + 1):
            tasks.append(("task_embedded", ("v4", ext, N, True, False)))
        for N in range(0, L6 + 1):
            tasks.append(("task_embedded", ("v6", ext, N, True, kf)))
        for N in range(L6 + 1, L6outer + 1):
            tasks.append(("task_embedded", ("v6", ext, N, False, kf)))
    run.add(common.run_tasks(__name__, tasks))
    run.triage(REGIONS)
    run.bounds = {"reglan": "all strings, unbounded length (z3 sequence/regex theory)",
                  "embedded_text_length": {"IPv4": "0..%d all spans" % L4,
                                           "IPv6": "0..%d all spans; %d..%d spans with <=1 context character per side" % (L6, L6 + 1, L6outer)},
                  "characters": "all of Unicode via minterm abstraction, minus the Unicode-only members of \\d \\s \\w"}
    run.assumptions = ["text characters are outside (Unicode \\d,\\s,\\w minus their ASCII definitions) - left unspecified by the property",
                       "reference grammars V4_REF/V6_REF (props/C18.py) are the specification; validated against ipaddress on solver-generated strings each run",
                       "embedded obligations constrain only neutral (edge/space) and glued (digit/separator) neighbours; letter neighbours are not asserted"]
    return run.finish(explanation="E2a: z3 RegLan equivalence of the extensible IPv4/IPv6 patterns with grammars written from the "
                      "standards (unbounded). E2b: bounded relational SMT encoding of re semantics over a symbolic text for embedded "
                      "occurrences. Every sat result is replayed on the real code before being reported.")
