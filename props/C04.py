"""C04 - quantifier bounds, greediness and spellings are exact."""
import itertools
from vlib import common, dsl, progs
from props import progfam

PROP = "C04"
L = lambda s: ("lit", s)
O = lambda s: ("obj", s)
REGIONS = {}


def operands(tier):
    a, b = L("a"), L("b")
    ops = [a, L("ab"), O("AnyFrom('a', 'b')"), ("either", [a, L("bc")]), ("either", [L("ab"), a]), ("opt", a, True), ("plus", a, False),
           ("star", L("ab"), True), ("group", L("ab"), False), ("capture", a, None), ("capture", ("either", [a, L("ab")]), "n"),
           ("concat", [a, O("AnyDigit()")]), L("a|b"), L("a?"), L("a$"), L("["), L("\\"), O("Any()"), O("WordBoundary()"),
           ("nfb", a, [b]), ("npb", a, [b]), L(""), ("pre", ""), ("exactly", a, 0), ("exactly", L("ab"), 2),
           ("between", a, 1, 2, False), ("opt", ("either", [a, L("")]), True), ("either", [("opt", a, True), b]),
           # concatenated groups whose classes hold unbalanced parentheses (must be repeated as a whole, not the last group only)
           ("concat", [("capture", ("concat", [L("f"), O("AnyFrom('(', '<')")]), None), ("capture", ("concat", [L("x"), O("AnyFrom(')', '>')")]), None)]),
           ("concat", [("group", O("AnyFrom('(', '<')"), False), ("group", O("AnyFrom(')', '>')"), False)]),
           # non-repeatable operands (documented CannotBeRepeatedException for bounds above one)
           ("mas", a), ("male", a), ("fb", a, [b]), ("pb", a, [b]), ("eb", a, [b])]
    if tier == "thorough":
        ops += [("group", L("ab"), True), ("capture", ("opt", a, True), None), ("concat", [("opt", a, True), ("opt", b, True)]),
                ("either", [L(""), a]) if False else ("star", ("either", [a, b]), False), O("Newline()"), L("a\nb"),
                ("enclose", a, [b]), ("mae", a), ("mals", a)]
    return ops


def forms(x, tier):
    hi = 3 if tier == "quick" else 4
    for g in (True, False):
        yield ("opt", x, g)
        yield ("star", x, g)
        yield ("plus", x, g)
        for n in range(0, hi + 1):
            yield ("atleast", x, n, g)
            yield ("atmost", x, n, g)
        yield ("atmost", x, None, g)
        for n in range(0, hi + 1):
            for m in list(range(n, hi + 1)) + [None]:
                yield ("between", x, n, m, g)
    for n in range(0, hi + 1):
        yield ("exactly", x, n)


LITERALS = ["\\\\", "\\\\\\", "a\\", "\\a", "\\d", "\\b", "\\.", "..", "$$", "^^", "((", "))", "[[", "]]", "{{", "}}", "||", "??", "**", "++", "--",
            "?:", "(?:", "a{2}", "[a]", "(a)", "a.", ".a", "a\\\\", "\\\\a", "\n\n", "''", '""', "\u00e9\u00e9", "//"]


def forms_small(x):
    """one representative of every quantifier and spelling family (used for the literal-operand pool: whether the
    quantifier binds to the whole operand depends on how the operand's text is classified)"""
    for g in (True, False):
        yield ("opt", x, g)
        yield ("star", x, g)
        yield ("plus", x, g)
        yield ("atleast", x, 2, g)
        yield ("atmost", x, 2, g)
        yield ("between", x, 1, 2, g)
    yield ("exactly", x, 2)
    yield ("exactly", x, 3)


def invalid_forms(x):
    bad = [-1, -2, True, False, 1.5, "1", None, [1]]
    for v in bad:
        yield ("exactly", x, v)
        yield ("atleast", x, v, True)
        if v is not None:
            yield ("atmost", x, v, True)
            yield ("between", x, 1, v, True)
        yield ("between", x, v, 2, True)
        yield ("between", x, v, None, False)
    yield ("between", x, 3, 2, True)
    yield ("between", x, 2, 1, False)
    yield ("between", x, 1, 0, True)
    yield ("between", x, -1, -2, True)
    yield ("between", x, True, -1, True)       # type error is reported before value error


def e1_cases(tier):
    """symbolic bounds and greediness: the parse of the emitted text must be REPEAT(n, m, greedy|lazy, operand) for every (n, m, g)"""
    from vlib.symx import engine
    hi = 6 if tier == "quick" else 99
    cs = []
    rng2 = "-2 <= n and n <= %d and (m is None or (-2 <= m and m <= %d))" % (hi, hi)
    rng1 = "-2 <= n and n <= %d" % hi
    operands = [("'ab'", "ptree('ab')", True), ("'a'", "ptree('a')", True), ("AnyLetter()", "ptree('[a-zA-Z]')", True),
                ("Either('a', 'bc')", "ptree('(?:a|bc)')", True), ("Pregex('')", None, True), ("MatchAtStart('a')", "ptree(chr(92) + 'Aa')", False)]
    if tier == "quick":
        operands = operands[:1] + operands[3:]
    for osrc, body, rep in operands:
        forms = [("AtLeastAtMost(%s, n, m, g)" % osrc, "n", "m", "g", [("n", "int"), ("m", "Opt[int]"), ("g", "bool")], rng2),
                 ("Pregex(%s).at_least_at_most(n, m, g)" % osrc if osrc.startswith("'") else "%s.at_least_at_most(n, m, g)" % osrc, "n", "m", "g",
                  [("n", "int"), ("m", "Opt[int]"), ("g", "bool")], rng2),
                 ("AtLeast(%s, n, g)" % osrc, "n", "None", "g", [("n", "int"), ("g", "bool")], rng1),
                 ("AtMost(%s, n, g)" % osrc, "0", "n", "g", [("n", "Opt[int]"), ("g", "bool")], "n is None or (-2 <= n and n <= %d)" % hi),
                 ("Exactly(%s, n)" % osrc, "n", "n", "True", [("n", "int")], rng1),
                 ("Pregex(%s) * n" % osrc if osrc.startswith("'") else "%s * n" % osrc, "n", "n", "True", [("n", "int")], rng1),
                 ("n * Pregex(%s)" % osrc if osrc.startswith("'") else "n * %s" % osrc, "n", "n", "True", [("n", "int")], rng1)]
        if tier == "quick" and osrc != "'ab'":
            forms = forms[:1] + forms[4:5]
        for call, en, em, eg, params, pre in forms:
            lines = ["N, M, G = %s, %s, %s" % (en, em, eg),
                     "bad = bad_bounds(N if N is not None else 0, M)" if "AtMost" in call else "bad = bad_bounds(N, M)",
                     "try:", "    p = %s" % call,
                     "except InvalidArgumentValueException:", "    return bad"]
            if not rep:
                lines += ["except CannotBeRepeatedException:", "    return (not bad) and (M is None or M > 1)"]
            lines += ["if bad:", "    return False"]
            if body is None:
                lines += ["return str(p) == ''"]
            elif not rep:
                lines += ["if M is None or M > 1:", "    return False", "return ptree(str(p)) == quant_tree(N, M, G, %s)" % body]
            else:
                lines += ["return ptree(str(p)) == quant_tree(N, M, G, %s)" % body]
            cs.append(engine.raw_case("\n".join(lines), params, [pre], "%s == REPEAT(n, m, greedy) for all bounds in [-2, %d] / None" % (call, hi)))
    return cs


def task_prog(e, Lmax):
    return progs.check_program(e, Lmax, mode="C04")


def run(tier):
    run = common.Run(PROP, tier)
    run.known.probe()
    run.functions = progfam.functions_pre()
    ps = []
    for x in operands(tier):
        ps += list(forms(x, tier))
    for lit in LITERALS:
        ps += list(forms_small(L(lit)))
    for x in [L("a"), L("ab"), ("mas", L("a")), L(""), O("AnyLetter()")]:
        ps += list(invalid_forms(x))
    ps = progs.dedupe(ps)
    Lmax = 6 if tier == "quick" else 8
    run.add(common.run_tasks(__name__, [("task_prog", (e, Lmax)) for e in ps], progress=2000))
    from vlib.symx import engine
    cases = e1_cases(tier)
    outs = engine.run_cases(cases, per_condition_timeout=300 if tier == "quick" else 2400)
    run.add(engine.to_results(cases, outs))
    run.info = {"crosshair_harnesses": len(cases), "crosshair_paths_explored": sum(r.get("paths", 0) for r in run.results)}
    run.triage(REGIONS)
    run.bounds = {"programs": "%d quantifier applications: %d operands x all 7 quantifiers, bounds 0..%d/None, both greediness; plus invalid bounds "
                  "(negative, bool, float, str, None, list, inverted); %d literal operands (backslash runs, doubled metacharacters, "
                  "regex-looking strings) x 14 representative quantifier forms" % (len(ps), len(operands(tier)), 3 if tier == "quick" else 4, len(LITERALS)),
                  "text_length": "<= %d" % Lmax, "spellings": "class, method, * operator (both sides)",
                  "E1": "%d harnesses with SYMBOLIC bounds n, m in [-2, %d] or None and symbolic greediness: parse(emitted) == REPEAT(n, m, greedy|lazy, operand), "
                        "InvalidArgumentValueException iff negative/inverted, CannotBeRepeatedException iff bound above one on a non-repeatable operand" % (len(cases), 6 if tier == "quick" else 99)}
    run.assumptions = ["reference: (?:operand){n,m} with lazy suffix, Empty operand or m == 0 -> empty pattern, documented exception classes "
                       "(type before value; CannotBeRepeatedException only for bounds above one on the 7 non-repeatable constructors)",
                       "bounds above %d are covered by the symbolic-bound harnesses of the E1 engine when present" % (3 if tier == "quick" else 4)]
    return run.finish(explanation=progfam.EXPLANATION)
