"""C04 - quantifier bounds, greediness and spellings are exact."""
import itertools
from vlib import common, dsl, progs
from props import progfam

PROP = "C04"
L = lambda s: ("lit", s)
O = lambda s: ("obj", s)
REGIONS = {}


def operands(tier):
    a, b = L("a"), L("b")
    ops = [a, L("ab"), O("AnyFrom('a', 'b')"), ("either", [a, L("bc")]), ("either", [L("ab"), a]), ("opt", a, True), ("plus", a, False),
           ("star", L("ab"), True), ("group", L("ab"), False), ("capture", a, None), ("capture", ("either", [a, L("ab")]), "n"),
           ("concat", [a, O("AnyDigit()")]), L("a|b"), L("a?"), L("a$"), L("["), L("\\"), O("Any()"), O("WordBoundary()"),
           ("nfb", a, [b]), ("npb", a, [b]), L(""), ("pre", ""), ("exactly", a, 0), ("exactly", L("ab"), 2),
           ("between", a, 1, 2, False), ("opt", ("either", [a, L("")]), True), ("either", [("opt", a, True), b]),
           # non-repeatable operands (documented CannotBeRepeatedException for bounds above one)
           ("mas", a), ("male", a), ("fb", a, [b]), ("pb", a, [b]), ("eb", a, [b])]
    if tier == "thorough":
        ops += [("group", L("ab"), True), ("capture", ("opt", a, True), None), ("concat", [("opt", a, True), ("opt", b, True)]),
                ("either", [L(""), a]) if False else ("star", ("either", [a, b]), False), O("Newline()"), L("a\nb"),
                ("enclose", a, [b]), ("mae", a), ("mals", a)]
    return ops


def forms(x, tier):
    hi = 3 if tier == "quick" else 4
    for g in (True, False):
        yield ("opt", x, g)
        yield ("star", x, g)
        yield ("plus", x, g)
        for n in range(0, hi + 1):
            yield ("atleast", x, n, g)
            yield ("atmost", x, n, g)
        yield ("atmost", x, None, g)
        for n in range(0, hi + 1):
            for m in list(range(n, hi + 1)) + [None]:
                yield ("between", x, n, m, g)
    for n in range(0, hi + 1):
        yield ("exactly", x, n)


def invalid_forms(x):
    bad = [-1, -2, True, False, 1.5, "1", None, [1]]
    for v in bad:
        yield ("exactly", x, v)
        yield ("atleast", x, v, True)
        if v is not None:
            yield ("atmost", x, v, True)
            yield ("between", x, 1, v, True)
        yield ("between", x, v, 2, True)
        yield ("between", x, v, None, False)
    yield ("between", x, 3, 2, True)
    yield ("between", x, 2, 1, False)
    yield ("between", x, 1, 0, True)
    yield ("between", x, -1, -2, True)
    yield ("between", x, True, -1, True)       # type error is reported before value error


def task_prog(e, Lmax):
    return progs.check_program(e, Lmax, mode="C04")


def run(tier):
    run = common.Run(PROP, tier)
    run.known.probe()
    run.functions = progfam.functions_pre()
    ps = []
    for x in operands(tier):
        ps += list(forms(x, tier))
    for x in [L("a"), L("ab"), ("mas", L("a")), L(""), O("AnyLetter()")]:
        ps += list(invalid_forms(x))
    ps = progs.dedupe(ps)
    Lmax = 6 if tier == "quick" else 8
    run.add(common.run_tasks(__name__, [("task_prog", (e, Lmax)) for e in ps], progress=2000))
    run.triage(REGIONS)
    run.bounds = {"programs": "%d quantifier applications: %d operands x all 7 quantifiers, bounds 0..%d/None, both greediness; plus invalid bounds "
                  "(negative, bool, float, str, None, list, inverted)" % (len(ps), len(operands(tier)), 3 if tier == "quick" else 4),
                  "text_length": "<= %d" % Lmax, "spellings": "class, method, * operator (both sides)"}
    run.assumptions = ["reference: (?:operand){n,m} with lazy suffix, Empty operand or m == 0 -> empty pattern, documented exception classes "
                       "(type before value; CannotBeRepeatedException only for bounds above one on the 7 non-repeatable constructors)",
                       "bounds above %d are covered by the symbolic-bound harnesses of the E1 engine when present" % (3 if tier == "quick" else 4)]
    return run.finish(explanation=progfam.EXPLANATION)
