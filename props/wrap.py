"""E3 harnesses for the matching / splitting wrappers (C11 - C14): CrossHair explores the real wrapper code on a
SYMBOLIC source text (every code point per character) for concrete patterns, with symbolic histories / flags /
window sizes; the oracle is direct use of re on the emitted text inside the same run. Counterexamples are replayed
with the plain re module under the baseline interpreter."""
import itertools
from vlib import common
from vlib.symx import engine

POOL = [
    ("literal", "Pregex('a')", False),
    ("prefix-alternation", "Either('a', 'ab')", False),
    ("empty-capable", "Indefinite('a')", False),
    ("lazy", "OneOrMore(AnyLetter(), is_greedy=False)", False),
    ("line-start", "MatchAtLineStart('a')", False),
    ("line-end", "MatchAtLineEnd(AnyLetter())", False),
    ("any-newline", "Any() + 'b'", False),
    ("word-boundary", "WordBoundary()", False),
    ("lookahead", "FollowedBy('a', 'b')", False),
    ("lookbehind", "PrecededBy('b', 'a')", False),
    ("groups-mixed", "Capture('a') + Capture(Optional('b'), 'n')", True),
    ("groups-optional", "Capture(Optional('a'), 'x') + Capture('b') + Optional(Capture('c', 'y'))", True),
    ("groups-alternative", "Either(Capture('a'), Capture('b', 'k'))", True),
    ("groups-nested", "Capture(Capture('a', 'i') + Optional('b'))", True),
    ("groups-empty", "Capture(Indefinite('a'), 'e') + Capture('b')", True),
    # text that the printable export (get_pattern / __repr__, which compile() goes through) has to carry unchanged
    ("backslash-quote", "Pregex(chr(92) + chr(39)) + Optional('a')", False),
    # a capturing group right after an escaped backslash / a class holding a bare parenthesis (textual group counting goes wrong here)
    ("groups-after-backslash", "Backslash() + Capture(AnyLetter())", True),
    ("class-paren", "AnyFrom('(', '<') + Optional('a')", False),
]
# sources executed concretely with the real re in addition to the symbolic run (CrossHair's match model lacks e.g. the real
# lastindex semantics and mishandles the empty subject; these points keep such blind spots covered)
SRC_POINTS = ["", "a", "b", "ab", "ba", "abc", "aab", "a\nb", "ab ab", "xaby", "\\'a", "x'a\\'", "\\a", "x\\ab\\c", "(a", "a(a<"]
NONNEST = ("groups-mixed", "groups-optional", "groups-alternative", "groups-empty", "groups-after-backslash")

HIST = """for op in OPS:
    if op == 1:
        p.compile()
    elif op == 2:
        p.get_compiled_pattern(True)
    elif op == 3:
        p.get_compiled_pattern(False)
    elif op == 4:
        Pregex.purge()
    elif op == 5:
        p.get_matches(src)
    elif op == 6:
        p.is_exact_match(src)
"""


def c11_cases(tier):
    cs = []
    pool = POOL if tier == "thorough" else POOL[:10] + POOL[10:11] + POOL[15:16]
    check = (
        "d, gi = direct(p, src)\n"
        "if p.has_match(src) != (len(d) > 0):\n    return False\n"
        "if p.is_exact_match(src) != (re.fullmatch(str(p), src, FLAGS) is not None):\n    return False\n"
        "gm = p.get_matches(src)\n"
        "if gm != [x[0] for x in d] or list(p.iterate_matches(src)) != gm:\n    return False\n"
        "gp = p.get_matches_and_pos(src)\n"
        "if gp != [(x[0], x[1], x[2]) for x in d] or list(p.iterate_matches_and_pos(src)) != gp:\n    return False\n"
        "for t, s, e in gp:\n    if src[s:e] != t:\n        return False\n"
        "return True")
    for tag, expr, _ in pool:
        # (a) compiled or not (symbolic flag), |source| <= 3
        # other compiled instances live and die before p is created (anything the library remembers about an instance must not
        # outlive it: CPython hands the freed addresses to the next objects)
        body = ("_qs = [Pregex('zq') for _k in range(20)]\nfor _q in _qs:\n    _q.compile()\n_q = None\n_qs = None\n"
                "p = %s\nif comp:\n    p.compile()\n" % expr) + check
        cs.append(engine.raw_case(body, [("src", "str"), ("comp", "bool")], ["1 <= len(src) and len(src) <= 3"],
                                  "C11 %s %s: matching methods == re, compiled or not (symbolic), 1 <= |source| <= 3" % (tag, expr),
                                  concrete=[(x, c) for x in SRC_POINTS for c in (False, True)]))
    # (b) symbolic histories of cache operations before the matching calls
    hist_pool = [x for x in pool if x[0] in (("literal", "prefix-alternation", "empty-capable") if tier == "quick" else [y[0] for y in pool])]
    nops = 2 if tier == "quick" else 3
    L = 2
    for tag, expr, _ in hist_pool:
        body = ("p = %s\nOPS = (%s,)\n" % (expr, ", ".join("o%d" % (i + 1) for i in range(nops)))) + HIST + check
        hi = 6
        cs.append(engine.raw_case(body, [("src", "str")] + [("o%d" % (i + 1), "int") for i in range(nops)],
                                  ["1 <= len(src) and len(src) <= %d and " % L + " and ".join("0 <= o%d and o%d <= %d" % (i + 1, i + 1, hi) for i in range(nops))],
                                  "C11 %s %s: matching methods == re after every history of <= %d compile/getter/purge/match calls, 1 <= |source| <= %d" % (tag, expr, nops, L),
                                  concrete=[("",) + h for h in itertools.product(range(7), repeat=nops)][:60]))
    return cs


CAPS = (
    "d, gi = direct(p, src)\n"
    "caps = p.get_captures(src, inc)\n"
    "if caps != [tuple(g for g in x[4] if inc or g != '') for x in d] or list(p.iterate_captures(src, inc)) != caps:\n    return False\n"
    "cp = p.get_captures_and_pos(src, inc, rel)\n"
    "exp = []\n"
    "for x in d:\n"
    "    row = []\n"
    "    for g, (a, b) in zip(x[4], x[3]):\n"
    "        if inc or g != '':\n"
    "            if rel and a > -1:\n                a, b = a - x[1], b - x[1]\n"
    "            row.append((g, a, b))\n"
    "    exp.append(row)\n"
    "if cp != exp or list(p.iterate_captures_and_pos(src, inc, rel)) != cp:\n    return False\n"
    "for x, row in zip(d, cp):\n"
    "    base = x[0] if rel else src\n"
    "    for g, a, b in row:\n"
    "        if g is None:\n            if (a, b) != (-1, -1):\n                return False\n"
    "        elif base[a:b] != g:\n            return False\n"
    "nc = p.get_named_captures(src, inc)\n"
    "if nc != [{n: x[4][k - 1] for n, k in gi.items() if inc or x[4][k - 1] != ''} for x in d] or list(p.iterate_named_captures(src, inc)) != nc:\n    return False\n"
    "npos = p.get_named_captures_and_pos(src, inc, rel)\n"
    "exp = []\n"
    "for x in d:\n"
    "    row = {}\n"
    "    for n, k in gi.items():\n"
    "        g, (a, b) = x[4][k - 1], x[3][k - 1]\n"
    "        if inc or g != '':\n"
    "            if rel and a > -1:\n                a, b = a - x[1], b - x[1]\n"
    "            row[n] = (g, a, b)\n"
    "    exp.append(row)\n"
    "if npos != exp or list(p.iterate_named_captures_and_pos(src, inc, rel)) != npos:\n    return False\n"
    "return True")


def c12_cases(tier):
    cs = []
    for tag, expr, grp in POOL:
        if not grp:
            continue
        for comp in ((0, 1) if tier == "thorough" else (0,)):
            body = ("p = %s\n" % expr) + ("p.compile()\n" if comp else "") + CAPS
            cs.append(engine.raw_case(body, [("src", "str"), ("inc", "bool"), ("rel", "bool")], ["1 <= len(src) and len(src) <= 3"],
                                      concrete=[(x, a, b) for x in SRC_POINTS for a in (True, False) for b in (True, False)], name=
                                      "C12 %s %s%s: capture extraction == re groups/spans, include_empty and relative_to_match symbolic, 1 <= |source| <= 3" %
                                      (tag, expr, " (compiled)" if comp else "")))
    return cs


def c13_cases(tier):
    cs = []
    pool = POOL if tier == "thorough" else [x for x in POOL if x[0] in ("literal", "prefix-alternation", "empty-capable", "word-boundary", "line-start", "any-newline",
                                                                        "groups-mixed", "groups-empty", "groups-alternative", "groups-after-backslash", "class-paren")]
    for tag, expr, grp in pool:
        body = ("p = %s\n" % expr) + (
            "d, gi = direct(p, src)\n"
            "pieces = p.split_by_match(src)\n"
            "if len(pieces) != len(d) + 1:\n    return False\n"
            "rebuilt = ''\n"
            "for i, x in enumerate(d):\n    rebuilt = rebuilt + pieces[i] + x[0]\n"
            "rebuilt = rebuilt + pieces[-1]\n"
            "if rebuilt != src:\n    return False\n"
            "exp, idx = [], 0\n"
            "for x in d:\n    exp.append(src[idx:x[1]])\n    idx = x[2]\n"
            "exp.append(src[idx:])\n"
            "if pieces != exp:\n    return False\n"
            "for repl in ('R', ''):\n"
            "    out, idx, n = '', 0, 0\n"
            "    for x in d:\n"
            "        if count and n >= count:\n            break\n"
            "        out = out + src[idx:x[1]] + repl\n        idx = x[2]\n        n += 1\n"
            "    out = out + src[idx:]\n"
            "    if count < 0:\n"
            "        try:\n            p.replace(src, repl, count)\n            return False\n        except InvalidArgumentValueException:\n            pass\n"
            "    elif p.replace(src, repl, count) != out:\n        return False\n"
            "if count == 0 and p.replace(src, 'R') != 'R'.join(pieces):\n    return False\n"
            "return True")
        cs.append(engine.raw_case(body, [("src", "str"), ("count", "int")], ["1 <= len(src) and len(src) <= 3 and -2 <= count and count <= 3"],
                                  "C13 %s %s: split_by_match rebuilds the source, replace == first count matches replaced, 1 <= |source| <= 3, count in [-2,3]" % (tag, expr),
                                  concrete=[(x, k) for x in SRC_POINTS for k in range(-2, 4)]))
        if tag in NONNEST:
            body = ("p = %s\n" % expr) + (
                "d, gi = direct(p, src)\n"
                "pieces = p.split_by_capture(src, inc)\n"
                "exp, idx = [], 0\n"
                "for x in d:\n"
                "    for g, (a, b) in zip(x[4], x[3]):\n"
                "        if g is None or (not inc and g == ''):\n            continue\n"
                "        exp.append(src[idx:a])\n        idx = b\n"
                "exp.append(src[idx:])\n"
                "return pieces == exp")
            cs.append(engine.raw_case(body, [("src", "str"), ("inc", "bool")], ["1 <= len(src) and len(src) <= 3"],
                                      "C13 %s %s: split_by_capture cuts at the (non-nesting) captured spans, include_empty symbolic, 1 <= |source| <= 3" % (tag, expr),
                                      concrete=[(x, b) for x in SRC_POINTS for b in (True, False)]))
    return cs


METHODS = [("has_match", ""), ("is_exact_match", ""), ("get_matches", ""), ("get_matches_and_pos", ""), ("get_captures", ", True"), ("get_captures", ", False"),
           ("get_captures_and_pos", ", True, True"), ("get_named_captures", ", False"), ("get_named_captures_and_pos", ", True, False"),
           ("split_by_match", ""), ("split_by_capture", ", True"), ("replace", ", 'R'"), ("replace", ", 'R', 1"),
           ("get_matches_with_context", ", 1, 2"), ("iterate_matches", ""), ("iterate_matches_and_pos", ""), ("iterate_captures", ""),
           ("iterate_captures_and_pos", ""), ("iterate_named_captures", ""), ("iterate_named_captures_and_pos", ""), ("iterate_matches_with_context", ", 2, 0")]


def c14_cases(tier):
    cs = []
    helpers = "import pregex.core.pre as _premod"
    for tag, expr in (("groups-mixed", POOL[10][1]), ("empty-capable", POOL[2][1])) if tier == "quick" else [(t, e) for t, e, _ in POOL if t in ("groups-mixed", "empty-capable", "line-end", "groups-optional")]:
        # the path is shorter than most contents and matches nothing: a result computed from the path string instead of the
        # file content (wrong clip length, compiled-pattern shortcut that skips the read) differs
        lines = ["p = %s" % expr, "if comp:\n    p.compile()", "path = 'q'", "log = []", "fs = fake_fs(path, content, log)", "fs.__enter__()", "try:"]
        for m, extra in METHODS:
            it = m.startswith("iterate_")
            a = "p.%s(path%s, is_path=True)" % (m, extra)
            b = "p.%s(content%s)" % (m, extra)
            if it:
                a, b = "list(%s)" % a, "list(%s)" % b
            lines.append("    if %s != %s:\n        return False" % (a, b))
        lines += ["    for f, mode, enc in log:", "        if f != path or mode != 'r' or enc != 'utf-8':", "            return False",
                  "    if len(log) != %d:" % len(METHODS), "        return False", "finally:", "    fs.__exit__()", "return True"]
        cs.append(engine.raw_case("\n".join(lines), [("content", "str"), ("comp", "bool")], ["1 <= len(content) and len(content) <= 3"],
                                  "C14 %s %s: every method with is_path gives the same result for (path, is_path=True) as for the file content, compiled or not (symbolic), 1 <= |content| <= 3" % (tag, expr),
                                  helpers=helpers, concrete=[("", False), ("", True), ("a\nb\u00e9\n", False), ("xaby aab q", True), ("/no/such/dir/input.txt", False), ("q", True)]))
        body = ("p = %s\n" % expr) + (
            "path = 'q'\nlog = []\n"
            "d, gi = direct(p, content)\n"
            "if comp:\n    p.compile()\n"
            "exp = [content[max(x[1] - nl, 0):min(x[2] + nr, len(content))] for x in d]\n"
            "if p.get_matches_with_context(content, nl, nr) != exp or list(p.iterate_matches_with_context(content, nl, nr)) != exp:\n    return False\n"
            "fs = fake_fs(path, content, log)\nfs.__enter__()\n"
            "try:\n    if p.get_matches_with_context(path, nl, nr, is_path=True) != exp:\n        return False\nfinally:\n    fs.__exit__()\n"
            "return True")
        cs.append(engine.raw_case(body, [("content", "str"), ("nl", "int"), ("nr", "int"), ("comp", "bool")], ["1 <= len(content) and len(content) <= 3 and 0 <= nl and nl <= 4 and 0 <= nr and nr <= 4"],
                                  "C14 %s %s: context windows == text[max(s-nl,0):min(e+nr,len)] for string and file sources, nl, nr in [0,4] and compiled state symbolic" % (tag, expr),
                                  helpers=helpers, concrete=[("", 0, 0, False), ("", 2, 3, True), ("xaby aab", 100, 100, False), ("xaby aab", 0, 7, True), ("xaby aab", 1, 2, False)]))
    body = ("p = Pregex('a')\n"
            "try:\n    p.get_matches_with_context('xax', nl, nr)\n    ok = True\nexcept InvalidArgumentValueException:\n    ok = False\n"
            "return ok == (nl >= 0 and nr >= 0)")
    cs.append(engine.raw_case(body, [("nl", "int"), ("nr", "int")], ["-3 <= nl and nl <= 3 and -3 <= nr and nr <= 3"],
                              "C14 negative window sizes raise InvalidArgumentValueException (symbolic nl, nr)"))
    body = ("p = Pregex('a')\nfor bad in (True, 1.5, '1', None):\n"
            "    for args in ((bad, 1), (1, bad)):\n"
            "        try:\n            p.get_matches_with_context('xax', *args)\n            return False\n        except InvalidArgumentTypeException:\n            pass\n"
            "return True")
    cs.append(engine.raw_case(body, [("z", "int")], ["z == 0"], "C14 non-integer window sizes raise InvalidArgumentTypeException"))
    return cs


CASES = {"C11": c11_cases, "C12": c12_cases, "C13": c13_cases, "C14": c14_cases}


def run(prop, tier):
    run = common.Run(prop, tier)
    run.known.probe()
    common.import_pregex()
    import pregex.core.pre as pre
    P = pre.Pregex
    fns = {"C11": [(P, "has_match"), (P, "is_exact_match"), (P, "iterate_matches"), (P, "iterate_matches_and_pos"), (P, "get_matches"), (P, "get_matches_and_pos"), (P, "compile"),
                   (P, "get_compiled_pattern"), (P, "purge"), (P, "_Pregex__iterate_match_objects"), (P, "get_pattern"), (P, "__repr__")],
           "C12": [(P, "iterate_captures"), (P, "iterate_captures_and_pos"), (P, "iterate_named_captures"), (P, "iterate_named_captures_and_pos"), (P, "get_captures"),
                   (P, "get_captures_and_pos"), (P, "get_named_captures"), (P, "get_named_captures_and_pos")],
           "C13": [(P, "replace"), (P, "split_by_match"), (P, "split_by_capture")],
           "C14": [(P, "_Pregex__extract_text"), (P, "iterate_matches_with_context"), (P, "get_matches_with_context"), (P, "has_match"), (P, "is_exact_match"), (P, "replace"),
                   (P, "split_by_match"), (P, "split_by_capture"), (P, "_Pregex__iterate_match_objects")]}[prop]
    run.functions = common.src_fingerprint(common.resolve(fns))
    cases = CASES[prop](tier)
    outs = engine.run_cases(cases, per_condition_timeout=420 if tier == "quick" else 2400)
    run.add(engine.to_results(cases, outs))
    run.triage({})
    run.info = {"crosshair_harnesses": len(cases), "crosshair_paths_explored": sum(r.get("paths", 0) for r in run.results)}
    run.bounds = {"source": "symbolic text of length <= 3, every code point per character", "patterns": "%d concrete patterns (empty-width, prefix alternation, lazy, line anchors, "
                  "DOTALL, look-arounds, mixed named/unnamed/optional/nested/empty groups)" % len(POOL),
                  "other": "histories of <= 3 operations (C11); include_empty / relative_to_match symbolic (C12); count in [-2,3] (C13); window sizes in [0,4] (C14)"}
    run.assumptions = ["the oracle is direct use of re (finditer / fullmatch on str(p) with MULTILINE|DOTALL) inside the same symbolic run; CrossHair's model of re matching "
                       "(relib + the fixes in vlib/symx/plugin.py) stands for the engine on both sides, so a discrepancy can only come from the wrapper code",
                       "replace(): inside the symbolic run re.sub is rebuilt on finditer (same scan; CPython's documented behaviour) - what is decided is that pattern, "
                       "replacement, text, count and flags reach it unchanged; every counterexample is replayed with the real re.sub",
                       "file I/O is a stub (hlib.fake_fs) installed as module global `open` of pregex.core.pre and as builtins.open / io.open for the duration of the call: the relative path holds the symbolic content, any other relative path does not exist (real file-system errors out of scope)"]
    return run.finish(explanation="CrossHair/z3 symbolic execution of the real wrapper methods on a symbolic source text; post-condition = equality with what re itself finds; "
                      "'Confirmed over all paths' = holds for every text within the bound (and every history / flag / window value).")
