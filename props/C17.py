"""C17 - Numeral and Word patterns enforce alphabet, length and affix exactly.

Concrete patterns from the real constructors, symbolic text, relational encoding (E2b);
specifications are z3 formulas over the same text (word runs, digit alphabets, affix containment).
"""
import itertools, random, time, z3
from vlib import rexsat as R, charset as cs, common, e2util
from vlib.charset import ISet

PROP = "C17"
REGIONS = {}
W = cs.A_WORD
DIGS = "0123456789abcdef"


def base_set(base):
    s = cs.EMPTY
    for ch in DIGS[:base]:
        s = s | ISet.of(ch) | ISet.of(ch.upper())
    return s


def _bounds_ok(n, lo, hi):
    return n >= lo and (hi is None or n <= hi)


def task_numeral(base, nmin, nmax, ext, L):
    src = "Numeral(%d, %d, %r, is_extensible=%r)" % (base, nmin, nmax, ext)
    common.note_construction(src)
    name = "numeral %s N<=%d" % (src, L)
    try:
        common.import_pregex()
        import pregex.meta.essentials as me
        pat = str(me.Numeral(base, nmin, nmax, is_extensible=ext))
        P = R.parse(pat)
    except Exception as e:
        return e2util.bad_pattern_result(name, src, e)
    A = base_set(base)
    ref = "[%s]{%d,%s}" % ("".join(sorted(set(DIGS[:base] + DIGS[:base].upper()))), nmin, "" if nmax is None else nmax)
    solver_s = 0.0
    for N in range(0, L + 1):
        prob = R.Problem([P], N, extra_sets=[W, A], exclude=cs.unicode_only())
        rp = R.Rel(prob, P)
        conds = {}
        for i in range(N + 1):
            for j in range(i, N + 1):
                m = rp.M(P.root, i, j)
                spec = R.AND(*[prob.inset(k, A) for k in range(i, j)]) if _bounds_ok(j - i, nmin, nmax) else False
                if ext:
                    conds[(i, j)] = R.NOT(R.IFF(m, spec))
                elif j > i:
                    glued = R.OR(prob.inset(i - 1, W), prob.inset(j, W))
                    conds[(i, j)] = R.OR(R.AND(glued, m), R.AND(R.NOT(glued), R.NOT(R.IFF(m, spec))))
        r, text, key, dt = e2util.solve_conds(prob, conds)
        solver_s += dt
        if r == "sat":
            i, j = key
            return {"name": name, "status": "violated", "solver_s": solver_s, "detail": "%s span [%d:%d] of %r" % (src, i, j, text),
                    "inputs": {"base": base, "text": text, "i": i, "j": j, "ext": ext},
                    "script": e2util.SPAN_SCRIPT % dict(src=src, ref=ref, text=text, i=i, j=j, mode="any" if ext else "delim")}
        if r != "unsat":
            return {"name": name, "status": "inconclusive", "detail": "solver %s" % r, "solver_s": solver_s}
    return {"name": name, "status": "discharged", "solver_s": solver_s, "sample": {"pattern": pat, "reference": ref, "L": L}}


def task_word(mn, mx, is_global, ext, L):
    src = "Word(%d, %r, is_global=%r, is_extensible=%r)" % (mn, mx, is_global, ext)
    common.note_construction(src)
    name = "word %s N<=%d" % (src, L)
    try:
        common.import_pregex()
        import pregex.meta.essentials as me
        pat = str(me.Word(mn, mx, is_global=is_global, is_extensible=ext))
        P = R.parse(pat)
    except Exception as e:
        return e2util.bad_pattern_result(name, src, e)
    ref = "[A-Za-z0-9_]{%d,%s}" % (mn, "" if mx is None else mx)
    solver_s = 0.0
    for N in range(0, L + 1):
        prob = R.Problem([P], N, extra_sets=[W], exclude=cs.unicode_only())
        rp = R.Rel(prob, P)
        conds = {}
        for i in range(N + 1):
            for j in range(i, N + 1):
                m = rp.M(P.root, i, j)
                spec = R.AND(*[prob.inset(k, W) for k in range(i, j)]) if _bounds_ok(j - i, mn, mx) else False
                if not ext:      # whole words only: maximal run
                    spec = R.AND(spec, R.NOT(prob.inset(i - 1, W)), R.NOT(prob.inset(j, W)))
                conds[(i, j)] = R.NOT(R.IFF(m, spec))
        r, text, key, dt = e2util.solve_conds(prob, conds)
        solver_s += dt
        if r == "sat":
            i, j = key
            return {"name": name, "status": "violated", "solver_s": solver_s, "detail": "%s span [%d:%d] of %r" % (src, i, j, text),
                    "inputs": {"text": text, "i": i, "j": j, "ext": ext},
                    "script": e2util.SPAN_SCRIPT % dict(src=src, ref=ref, text=text, i=i, j=j, mode="any" if ext else "delim")}
        if r != "unsat":
            return {"name": name, "status": "inconclusive", "detail": "solver %s" % r, "solver_s": solver_s}
    return {"name": name, "status": "discharged", "solver_s": solver_s, "sample": {"pattern": pat, "reference": ref, "L": L}}


def task_affix(kind, affixes, is_global, ext, L):
    arg = list(affixes) if len(affixes) > 1 else affixes[0]
    src = "%s(%r, is_global=%r, is_extensible=%r)" % (kind, arg, is_global, ext)
    common.note_construction(src)
    name = "affix %s N<=%d" % (src, L)
    try:
        common.import_pregex()
        import pregex.meta.essentials as me
        pat = str(getattr(me, kind)(arg, is_global=is_global, is_extensible=ext))
        P = R.parse(pat)
    except Exception as e:
        return e2util.bad_pattern_result(name, src, e)
    import re as _re
    alt = "|".join(_re.escape(a) for a in affixes)
    w = "[A-Za-z0-9_]*"
    ref = {"WordContains": "%s(?:%s)%s" % (w, alt, w), "WordStartsWith": "(?:%s)%s" % (alt, w),
           "WordEndsWith": "%s(?:%s)" % (w, alt)}[kind]
    chars = [ISet.of(c) for a in affixes for c in a]
    solver_s = 0.0
    for N in range(0, L + 1):
        prob = R.Problem([P], N, extra_sets=[W] + chars, exclude=cs.unicode_only())
        rp = R.Rel(prob, P)

        def lit(a, k):
            return R.AND(*[prob.inset(k + t, ISet.of(ch)) for t, ch in enumerate(a)])
        conds = {}
        for i in range(N + 1):
            for j in range(i + 1, N + 1):
                m = rp.M(P.root, i, j)
                def allw(a, b):
                    return R.AND(*[prob.inset(k, W) for k in range(a, b)])
                occ = []
                for a in affixes:
                    if len(a) > j - i:
                        continue
                    if kind == "WordContains":
                        ks = range(i, j - len(a) + 1)
                    elif kind == "WordStartsWith":
                        ks = [i]
                    else:
                        ks = [j - len(a)]
                    # word characters, the affix as literal text, word characters
                    occ += [R.AND(allw(i, k), lit(a, k), allw(k + len(a), j)) for k in ks]
                struct = R.OR(*occ)
                if ext:
                    conds[(i, j)] = R.NOT(R.IFF(m, struct))
                    continue
                wl, wi, wj1, wj = prob.inset(i - 1, W), prob.inset(i, W), prob.inset(j - 1, W), prob.inset(j, W)
                spec_b = R.AND(struct, R.NOT(R.IFF(wl, wi)), R.NOT(R.IFF(wj1, wj)))      # word boundaries at both ends
                spec_g = R.AND(struct, R.NOT(wl), R.NOT(wj))                            # not glued to a word character
                # the two readings of "a standalone word" coincide whenever the span begins and ends with a word character
                # (always, for word-character affixes); an affix with other characters at its edge leaves the rest open
                conds[(i, j)] = R.AND(R.NOT(R.IFF(m, spec_b)), R.IFF(spec_b, spec_g))
        r, text, key, dt = e2util.solve_conds(prob, conds)
        solver_s += dt
        if r == "sat":
            i, j = key
            return {"name": name, "status": "violated", "solver_s": solver_s, "detail": "%s span [%d:%d] of %r" % (src, i, j, text),
                    "inputs": {"text": text, "i": i, "j": j, "ext": ext, "affixes": list(affixes)},
                    "script": e2util.SPAN_SCRIPT % dict(src=src, ref=ref, text=text, i=i, j=j, mode="any" if ext else "delim")}
        if r != "unsat":
            return {"name": name, "status": "inconclusive", "detail": "solver %s" % r, "solver_s": solver_s}
    return {"name": name, "status": "discharged", "solver_s": solver_s, "sample": {"pattern": pat, "reference": ref, "L": L}}


def task_validation():
    """documented exceptions for out-of-range parameters (concrete boundary inputs)"""
    common.import_pregex()
    import pregex.meta.essentials as me
    import pregex.core.exceptions as ex
    T, V = ex.InvalidArgumentTypeException, ex.InvalidArgumentValueException
    cases = [("Numeral", (1,), V), ("Numeral", (17,), V), ("Numeral", (0,), V), ("Numeral", (-2,), V), ("Numeral", ("10",), T),
             ("Numeral", (2.0,), T), ("Numeral", (10, -1), V), ("Numeral", (10, 1, -1), V), ("Numeral", (10, 3, 2), V),
             ("Numeral", (10, "1"), T), ("Numeral", (10, 1, "2"), T), ("Numeral", (10, True), T), ("Numeral", (10, 1, True), T),
             ("Numeral", (10, 1.0), T), ("Numeral", (10, 1, 2.0), T),
             ("Word", (0,), V), ("Word", (-1,), V), ("Word", (1, 0), V), ("Word", (3, 2), V), ("Word", ("1",), T), ("Word", (1, "2"), T),
             ("Word", (1.0,), T), ("Word", (1, 2.5), T),
             ("WordContains", (1,), T), ("WordContains", (["a", 2],), T), ("WordStartsWith", (None,), T), ("WordStartsWith", (["a", b"b"],), T),
             ("WordEndsWith", (3.0,), T), ("WordEndsWith", ([["a"]],), T)]
    ok_cases = [("Numeral", (2,)), ("Numeral", (16,)), ("Numeral", (10, 0, 0)), ("Numeral", (10, 2, 2)), ("Numeral", (10, 0, None)),
                ("Word", (1, 1)), ("Word", (1, None)), ("WordContains", ("a",)), ("WordContains", (["a", "b"],))]
    bad = []
    for cls, args, exc in cases:
        try:
            getattr(me, cls)(*args)
            bad.append((cls, args, exc.__name__, "no exception"))
        except exc:
            pass
        except Exception as e:
            bad.append((cls, args, exc.__name__, repr(e)))
    for cls, args in ok_cases:
        try:
            import re as _re
            _re.compile(str(getattr(me, cls)(*args)), R.FLAGS)
        except Exception as e:
            bad.append((cls, args, "accepted", repr(e)))
    if bad:
        cls, args, want, what = bad[0]
        return {"name": "C17 argument validation", "status": "violated", "detail": repr(bad[:3]), "inputs": {"text": ""},
                "script": "want = %r\ntry:\n    re.compile(str(%s(*%r)), FLAGS)\n    got = 'accepted'\nexcept Exception as e:\n    got = type(e).__name__\n"
                          "if got != want: REPRODUCED('%s%r -> %%s, documented %%s' %% (got, want))\nNOT_REPRODUCED()\n" % (want, cls, args, cls, args)}
    return {"name": "C17 argument validation (%d boundary cases)" % (len(cases) + len(ok_cases)), "status": "discharged"}


def run(tier):
    run = common.Run(PROP, tier)
    run.known.probe()
    common.import_pregex()
    import pregex.meta.essentials as me
    run.functions = common.src_fingerprint(common.resolve([(me.Numeral, "__init__"), (me.Word, "__init__"), (me.WordContains, "__init__"), (me.WordStartsWith, "__init__"), (me.WordEndsWith, "__init__"), (me.Word.__mro__[1], "__init__")]))
    rnd = random.Random(common.SEED)
    tasks = [("task_validation", ())]
    if tier == "quick":
        bounds = [(0, 0), (0, 2), (1, 1), (1, None), (2, 3), (0, None), (3, 3)]
        LN, LW, LA = 5, 6, 6
        pool = ["a", "ab", "b", "ba", "a1", "_", "aba", "B"]
        lists = [(x,) for x in pool[:5]] + [("ab", "cab"), ("ab", "abc"), ("a", "ab"), ("ab", "a"), ("b", "ab", "_")]
    else:
        bounds = [(a, b) for a in range(0, 5) for b in list(range(a, 5)) + [None]]
        LN, LW, LA = 7, 8, 7
        pool = ["a", "ab", "b", "ba", "a1", "_", "aba", "B", "bb", "1", "abc", "cab"]
        lists = [(x,) for x in pool] + [tuple(p) for p in itertools.permutations(pool[:7], 2)] + \
                [tuple(rnd.sample(pool, 3)) for _ in range(30)]
    # affixes are taken literally: one with a metacharacter can never occur inside a word, so nothing may match through it
    lists += [("a.c",), ("a+",), ("a|b",), ("a?",), ("[ab]",), ("\\w",), ("a$",), ("^a",), ("a.c", "b"), ("b", "a*"), ("(a)",), ("a{2}",), ("a\\",)]
    for base in range(2, 17):
        for (a, b) in bounds:
            for ext in (False, True):
                tasks.append(("task_numeral", (base, a, b, ext, LN)))
    for (a, b) in bounds:
        if a >= 1:
            for g in (True, False):
                for ext in (False, True):
                    tasks.append(("task_word", (a, b, g, ext, LW)))
    for kind in ("WordContains", "WordStartsWith", "WordEndsWith"):
        for lst in lists:
            for ext in (False, True):
                tasks.append(("task_affix", (kind, lst, True, ext, LA)))
            tasks.append(("task_affix", (kind, lst, False, False, LA)))
    run.add(common.run_tasks(__name__, tasks, progress=400))
    run.triage(REGIONS)
    run.bounds = {"numeral": "bases 2..16 x %d length-bound pairs x is_extensible, text length <= %d" % (len(bounds), LN),
                  "word": "length bounds with min>=1, is_global x is_extensible, text length <= %d" % LW,
                  "affix": "%d affix lists (word-character strings of length 1-3, and 13 lists with regex metacharacters) x 3 classes, text length <= %d" % (len(lists), LA),
                  "characters": "all of Unicode minus Unicode-only \\d\\s\\w members"}
    run.assumptions = ["affix pool enumerated (word-character strings, plus strings with one metacharacter each)",
                       "non-extensible Numeral: spans glued to a word character must not match, others agree with the alphabet/length reference",
                       "parameter validation is decided on enumerated boundary values (symbolic version: C03/C04 harnesses)"]
    return run.finish(explanation="Relational SMT encoding of each concrete pattern over a symbolic text vs a z3 specification "
                      "(digit alphabet of the base in both cases, word-run maximality, affix occurrence as literal text).")
