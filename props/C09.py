"""C09 - only anchored / positive-look-around patterns are refused repetition."""
from vlib import common, dsl, progs
from vlib.symx import engine
from props import progfam

PROP = "C09"
REGIONS = {}
L = lambda s: ("lit", s)
O = lambda s: ("obj", s)
CBR = "CannotBeRepeatedException"


def repeating(x):
    for g in (True, False):
        yield ("star", x, g)
        yield ("plus", x, g)
        yield ("atleast", x, 0, g)
        yield ("atleast", x, 1, g)
        yield ("atleast", x, 3, g)
        yield ("atmost", x, 2, g)
        yield ("atmost", x, None, g)
        yield ("between", x, 0, 2, g)
        yield ("between", x, 1, None, g)
        yield ("between", x, 2, 5, g)
    yield ("exactly", x, 2)
    yield ("exactly", x, 7)
    yield ("between", x, 2, 2, True)


def non_repeating(x):
    for g in (True, False):
        yield ("opt", x, g)
        yield ("atmost", x, 1, g)
        yield ("atmost", x, 0, g)
        yield ("between", x, 0, 1, g)
    yield ("exactly", x, 0)
    yield ("exactly", x, 1)
    yield ("between", x, 1, 1, True)
    yield ("between", x, 0, 0, False)


def operands():
    a, b = L("a"), L("b")
    inner = [a, L("ab"), L(""), ("either", [a, L("bc")]), O("AnyLetter()"), ("opt", a, True), ("capture", a, None), ("nfb", a, [b])]
    direct = []
    for x in inner:
        direct += [("mas", x), ("mae", x), ("mals", x), ("male", x), ("fb", x, [b]), ("pb", x, [b]), ("eb", x, [b]),
                   ("fb", x, [L("bc"), O("AnyDigit()")])]
    lits = ["a", "ab", "$", "a$", "US$", "^", "^a", "a^", "\\A", "a\\Z", "\\Za", "(?=a)", "a(?=b)", "(?<=a)b", "\\b", "a\\b", "$$", "a$b", "\\$", "a\\$",
            "$\n", "a\n$", "^$", "\\", "a\\", "(", ")", "a)", "(a", "|", "a|b", "[", "]", "a]", "?", "a?", "*", "+", "{2}", "a{2}", ".", "\n", "a\nb", "Z", "A",
            "\\Z", "(?!a)", "x(?<!a)"]
    free = [L(s) for s in lits] + [
        O("AnyLetter()"), O("AnyDigit()"), O("Any()"), O("AnyFrom('$', '^')"), O("AnyButFrom('$')"), O("Newline()"), O("Dollar()"), O("Backslash()"),
        O("WordBoundary()"), O("NonWordBoundary()"), ("group", L("ab"), False), ("group", L("a$"), True), ("capture", L("ab"), None), ("capture", L("a$"), "n"),
        ("either", [a, b]), ("either", [L("a$"), b]), ("either", [L("^a"), L("b$")]), ("opt", a, True), ("plus", L("ab"), False), ("exactly", L("a$"), 2),
        ("concat", [a, O("AnyLetter()")]), ("concat", [L("$"), a]), ("concat", [a, L("$")]), ("concat", [O("Dollar()"), O("Dollar()")]),
        ("nfb", a, [b]), ("npb", a, [b]), ("neb", a, [b]), ("nfb", L("a$"), [L("$")]), ("concat", [O("WordBoundary()"), a]), ("concat", [a, O("NonWordBoundary()")]),
        ("enclose", a, [O("WordBoundary()")]), ("nfb", L(""), [b]), ("npb", L(""), [b]), ("concat", [("nfb", a, [b]), L("c")])]
    return direct, free


def family(tier):
    direct, free = operands()
    ps = []
    for x in direct + free:
        ps += list(repeating(x)) + list(non_repeating(x))
    return progs.dedupe(ps)


def task_prog(e, Lmax):
    return progs.check_program(e, Lmax, mode="C09")


def e1_cases(tier):
    cs = []
    P1 = [("A0", "str")]
    Ks = (1, 2) if tier == "quick" else (1, 2, 3)
    reps = ["Indefinite(A0)", "OneOrMore(A0, is_greedy=False)", "Exactly(A0, 3)", "AtLeast(A0, 2)", "AtMost(A0, 4)", "AtLeastAtMost(A0, 1, 3)",
            "Pregex(A0).indefinite()", "Pregex(A0).one_or_more()", "Pregex(A0).exactly(2)", "Pregex(A0).at_least(0)", "Pregex(A0).at_most(None)",
            "Pregex(A0).at_least_at_most(2, 2)", "Pregex(A0) * 2", "3 * Pregex(A0)"]
    for K in Ks:
        pre = ["len(A0) == %d" % K]
        for r in (reps if K < 3 else reps[:4]):
            cs.append(engine.exc_case(r, P1, pre, forbidden=[CBR], name="%s |%d| never CannotBeRepeated" % (r, K)))
    pre1 = ["len(A0) == 1"]
    # assertion-free expressions with a symbolic leaf
    for r in ["OneOrMore(Either(A0, 'x'))", "OneOrMore(Pregex(A0) + 'x')", "OneOrMore('x' + Pregex(A0))", "OneOrMore(Group(A0))", "OneOrMore(Capture(A0))",
              "OneOrMore(NotFollowedBy(A0, 'b'))", "OneOrMore(NotPrecededBy('a', A0))", "OneOrMore(AnyFrom(A0))", "OneOrMore(AnyButFrom(A0, 'x'))",
              "OneOrMore(Optional(A0))", "Indefinite(WordBoundary() + A0)", "Exactly(Pregex('x') + A0 + NonWordBoundary(), 2)", "AtLeast(Either('x', A0) + 'y', 2)"]:
        cs.append(engine.exc_case(r, P1, pre1, forbidden=[CBR], name="%s never CannotBeRepeated" % r))
    # the seven non-repeatable constructors applied directly
    for ctor in ["MatchAtStart(A0)", "MatchAtEnd(A0)", "MatchAtLineStart(A0)", "MatchAtLineEnd(A0)", "FollowedBy(A0, 'b')", "FollowedBy('a', A0)",
                 "PrecededBy(A0, 'b')", "PrecededBy('a', A0)", "EnclosedBy(A0, 'b')", "EnclosedBy('a', A0)"]:
        cs.append(engine.exc_case("OneOrMore(%s)" % ctor, P1, pre1, required=CBR, name="OneOrMore(%s) refused" % ctor))
        cs.append(engine.exc_case("AtLeastAtMost(%s, 0, 2)" % ctor, P1, pre1, required=CBR, name="AtLeastAtMost(%s,0,2) refused" % ctor))
        cs.append(engine.exc_case("Optional(%s)" % ctor, P1, pre1, forbidden=[CBR], name="Optional(%s) accepted" % ctor))
        cs.append(engine.exc_case("(%s) * 1" % ctor, P1, pre1, forbidden=[CBR], name="(%s) * 1 accepted" % ctor))
    # symbolic bounds: refused iff the bound exceeds one
    body = ("raised = False\ntry:\n    AtLeastAtMost(MatchAtLineEnd('a'), n, m)\nexcept CannotBeRepeatedException:\n    raised = True\nreturn raised == (m > 1)")
    cs.append(engine.raw_case(body, [("n", "int"), ("m", "int")], ["0 <= n and n <= m and m <= %d" % (5 if tier == "quick" else 30)],
                              "AtLeastAtMost(MatchAtLineEnd('a'), n, m) refused iff m > 1 (symbolic n, m)"))
    body = ("raised = False\ntry:\n    Exactly(FollowedBy('a', 'b'), n)\nexcept CannotBeRepeatedException:\n    raised = True\nreturn raised == (n > 1)")
    cs.append(engine.raw_case(body, [("n", "int")], ["0 <= n and n <= %d" % (9 if tier == "quick" else 99)], "Exactly(FollowedBy('a','b'), n) refused iff n > 1 (symbolic n)"))
    body = ("raised = False\ntry:\n    AtMost(Pregex('a$'), n)\nexcept CannotBeRepeatedException:\n    raised = True\nreturn not raised")
    cs.append(engine.raw_case(body, [("n", "int")], ["0 <= n and n <= %d" % (9 if tier == "quick" else 99)], "AtMost('a$', n) never refused (symbolic n)"))
    return cs


def run(tier):
    run = common.Run(PROP, tier)
    run.known.probe()
    run.functions = progfam.functions_pre()
    ps = family(tier)
    run.add(common.run_tasks(__name__, [("task_prog", (e, 4)) for e in ps], progress=5000))
    cases = e1_cases(tier)
    outs = engine.run_cases(cases, per_condition_timeout=240 if tier == "quick" else 1500)
    run.add(engine.to_results(cases, outs))
    run.triage(REGIONS)
    direct, free = operands()
    run.info = {"crosshair_harnesses": len(cases), "crosshair_paths_explored": sum(r.get("paths", 0) for r in run.results)}
    run.bounds = {"programs": "%d: every repeating (30) and non-repeating (12) quantifier form over %d direct anchor/positive-look-around operands (7 constructors x 8 inner "
                  "operands incl. the empty pattern) and %d assertion-free operands (literals ending/starting with $ ^ \\\\A \\\\Z (?= ..., classes, tokens, groups, "
                  "alternations, quantified, negative look-arounds, word boundaries)" % (len(ps), len(direct), len(free)),
                  "E1": "%d harnesses: symbolic literal |s| <= %d in every repeating spelling (classes, methods, * on both sides); symbolic leaf inside assertion-free "
                  "expressions; the 7 constructors over a symbolic literal; symbolic bounds" % (len(cases), 2 if tier == "quick" else 3)}
    run.assumptions = ["'applied directly' = the quantifier's operand is the MatchAt*/FollowedBy/PrecededBy/EnclosedBy instance itself; operands that merely contain such a pattern are "
                       "not asserted either way (not in the family)"]
    return run.finish(explanation=progfam.EXPLANATION + " E1: CrossHair explores all paths of the real code for symbolic literals / bounds; the post-condition is the exception discipline.")
