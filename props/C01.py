"""C01 - plain strings are matched literally wherever they are accepted.

E1 (CrossHair + z3): the string argument is SYMBOLIC (every code point per character); the real constructors run
symbolically, the emitted text is read by the real re parser (also symbolically) and must equal - after
normalisation - the parser's reading of the fully parenthesised reference text in which the string contributes
exactly its characters as literals. Verdict 'Confirmed over all paths' = discharged for every string of that length.
E2 (z3, concrete strings): a boundary pool of longer literals in every position, all texts up to the bound."""
import itertools
from vlib import common, dsl, progs
from vlib.symx import engine
from props import progfam

PROP = "C01"
REGIONS = {}
L = lambda s: ("lit", s)
O = lambda s: ("obj", s)


def positions(S):
    """every argument position that accepts a str, with the hole S in it"""
    x, y = L("x"), L("y")
    out = [("psym", 0, S[2])]
    for g in (True, False):
        out += [("opt", S, g), ("star", S, g), ("plus", S, g)]
    out += [("exactly", S, 2), ("exactly", S, 1), ("atleast", S, 2, True), ("atmost", S, 2, False), ("between", S, 1, 2, True),
            ("capture", S, None), ("capture", S, "n"), ("group", S, False), ("group", S, True),
            ("mas", S), ("mae", S), ("mals", S), ("male", S)]
    for k in ("concat", "either"):
        out += [(k, [S]), (k, [S, x]), (k, [x, S]), (k, [x, S, y]), (k, [S, O("AnyLetter()")]), (k, [O("AnyLetter()"), S])]
    out += [("enclose", S, []), ("enclose", S, [x]), ("enclose", x, [S]), ("enclose", x, [y, S])]
    for k in dsl.LOOK:
        out += [(k, S, [x]), (k, x, [S]), (k, x, [y, S])]
    cap = ("capture", x, "n")
    out += [("concat", [cap, ("cond", "n", S, None)]), ("concat", [("opt", cap, True), ("cond", "n", y, S)]),
            ("concat", [("opt", cap, True), ("cond", "n", S, y)])]
    # the string inside a larger operand
    out += [("opt", ("concat", [S, x]), True), ("plus", ("either", [x, S]), True), ("concat", [("either", [S, x]), y]),
            ("concat", [y, ("either", [x, S])]), ("capture", ("concat", [x, S]), None), ("fb", ("either", [S, x]), [y]),
            ("exactly", ("concat", [x, S]), 2), ("either", [("concat", [S, x]), y])]
    return out


def spellings(e):
    sp = ["class"]
    if e[0] not in ("psym",):
        sp.append("method")
        if dsl.has_operator_form(e):
            sp.append("operator")
    return sp


def e1_cases(K, tier):
    S = ("sym", 0, K)
    cases = []
    for e in positions(S):
        for sp in spellings(e):
            if sp != "class" and tier == "quick" and e[0] not in ("concat", "either", "exactly", "fb", "pb"):
                continue
            c = engine.tree_case(e, sp)
            if c:
                cases.append(c)
    # bare constructor with more symbolic characters
    return cases


POOL = ["|", "a|b", "(", ")", "(a)", "[", "]", "[a-z]", "[a", "a]", "$", "a$", "US$", "^", "^a", "?", "a?", "*", "a*", "+", "{", "}",
        "a{2}", "{2,3}", "\\", "\\\\", "\\\\\\", "a\\", "\\a", "\\d", "\\b", "\\n", ".", "a.b", "/", "a/b", "\n", "a\nb", "\t", "(?:", "(?:a)",
        "(?P<n>a)", "(?=a)", "(?<!a)", "'", "\"", "'\"", "\x00", "é", "\U0001F600", "-", "a-z", "#", " a ", "\\'", "\\(", "\\[", "$^", "a||b", "()"]


def task_e2(s, tier):
    """one concrete literal from the boundary pool in every position: semantic equivalence over all texts"""
    out = []
    S = ("lit", s)
    for e in positions(("sym", 0, len(s))):
        e2 = engine.subst(e, {0: s})
        out += progs.check_program(e2, min(len(s) + 2, 5), mode="C01")
    return out


def run(tier):
    run = common.Run(PROP, tier)
    run.known.probe()
    run.functions = progfam.functions_pre()
    # ---- E1
    cases = e1_cases(1, tier)
    if tier == "thorough":
        cases += e1_cases(2, tier)
        cases.append(engine.tree_case(("psym", 0, 3)))
    else:
        cases.append(engine.tree_case(("psym", 0, 2)))
    cases.append(engine.tree_case(("psym", 0, 0)))
    outs = engine.run_cases(cases, per_condition_timeout=300 if tier == "quick" else 1500)
    run.add(engine.to_results(cases, outs))
    # ---- E2
    core = ["\\", "\\\\", "\\\\\\", "|", "||", "(", ")", "()", "[", "]", "[]", "$", "$$", "^", "?", "??", "*", "+", "{", "}", ".", "..", "/", "a$", "^a", "a|b",
            "(a)", "[a]", "a?", "a..b?", "\n", "a\nb", "\\'", "$^",
            # several lines: a special character on a later / on the first line (line-sensitive scans of the argument)
            "\n(", "a\n.", ".\na", "\n\\"]
    rest = [x for x in POOL if x not in core]
    pool = POOL + [x for x in core if x not in POOL] if tier == "thorough" else core + rest[common.SEED % 4::4]
    run.add(common.run_tasks(__name__, [("task_e2", (s, tier)) for s in pool]))
    run.triage(REGIONS)
    paths = sum(r.get("paths", 0) for r in run.results)
    run.info = {"crosshair_harnesses": len(cases), "crosshair_paths_explored": paths}
    run.bounds = {"E1": "%d harnesses: the str argument symbolic with |s| = 1 (all %d positions%s), |s| <= %s for Pregex(s); every code point 0..0x10FFFF per character" %
                  (len(cases), len(positions(("sym", 0, 1))), "; |s| = 2 as well" if tier == "thorough" else "", "3" if tier == "thorough" else "1"),
                  "E2": "%d boundary literals (a fixed core: every metacharacter alone and doubled, backslash runs of length 1-3, newline, two-line literals with a special character on either line; plus a seed-rotated part; metacharacters at both ends, backslash runs, newline, quotes, NUL, non-BMP) in every position; texts up to |s|+2 (<= 5)" % len(pool)}
    run.assumptions = ["reference: the string contributes a backslash-escaped copy of itself (metacharacters \\.^$*+?{}[]|() escaped, nothing else), every operand parenthesised (vlib/dsl.py)",
                       "CrossHair's model of re (relib) is used for pregex's internal regexes on symbolic text; guarded by per-path concolic self-validation "
                       "(concrete re-run of the real code on a model of each path) and by replay of every counterexample",
                       "other operands are fixed generic literals; one symbolic string per expression; longer strings only from the concrete pool"]
    return run.finish(explanation="E1: symbolic execution (CrossHair/z3) of the real constructors and of CPython's re parser on a symbolic string argument; "
                      "'Confirmed over all paths' means every path for every string of that length was explored and the parse of the emitted text equalled "
                      "the parse of the reference. E2: exact SMT encoding of finditer for concrete boundary literals against the reference, symbolic text.")
