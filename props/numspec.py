"""Numeric specifications (C15/C16) as z3 terms over a symbolic text (vlib.rexsat.Problem)."""
import z3
from vlib import rexsat as R, charset as cs
from vlib.charset import ISet

DIG = [ISet.of(str(d)) for d in range(10)]
DIGITS = cs.A_DIGIT
PLUS, MINUS, DOT = ISet.of("+"), ISet.of("-"), ISet.of(".")
SIGNS = PLUS | MINUS
WORD_NONDIGIT = cs.A_WORD - cs.A_DIGIT          # letters and underscore


def extra_sets():
    return DIG + [DIGITS, PLUS, MINUS, DOT, WORD_NONDIGIT]


class Num:
    def __init__(self, prob):
        self.p = prob
        self._dv = {}
        self._val = {}

    def digit(self, i):
        return self.p.inset(i, DIGITS)

    def sign(self, i):
        return self.p.inset(i, SIGNS)

    def dval(self, i):
        r = self._dv.get(i)
        if r is None:
            e = z3.IntVal(0)
            for d in range(1, 10):
                c = self.p.inset(i, DIG[d])
                e = R.ITE(c, d, e)
            r = self._dv[i] = e
        return r

    def value(self, i, j):
        key = (i, j)
        r = self._val.get(key)
        if r is None:
            if j - i == 0:
                r = z3.IntVal(0)
            else:
                r = self.value(i, j - 1) * 10 + self.dval(j - 1)
            self._val[key] = r
        return r

    def alldig(self, i, j):
        return R.AND(*[self.digit(k) for k in range(i, j)])

    def canonical_in_range(self, i, j, start, end):
        """text[i:j] (all digits, j > i) is a numeral without leading zeros with start <= v <= end"""
        if j <= i:
            return False
        n = j - i
        if n > len(str(end)):
            # longer than the largest admissible numeral: only possible with leading zeros
            return False
        nolead = True if n == 1 else R.NOT(self.p.inset(i, DIG[0]))
        v = self.value(i, j)
        return R.AND(nolead, v >= start, v <= end)

    def maximal_run(self, i, j):
        """[i, j) is a maximal run of digits"""
        if j <= i:
            return False
        return R.AND(self.alldig(i, j), R.NOT(self.digit(i - 1)), R.NOT(self.digit(j)))

    def numeral(self, i, j, start, end):
        return R.AND(self.maximal_run(i, j), self.canonical_in_range(i, j, start, end))


def integer_spec_match(num, variant, include_sign, s, e, start, end):
    """documented behaviour of the non-extensible Integer family: does finditer yield the span [s, e)?
    (text over digits, '+', '-', non-word characters: no letters / underscore)"""
    p = num.p
    if variant == "Integer" and not include_sign:
        return num.numeral(s, e, start, end)
    if variant == "UnsignedInteger":
        return R.AND(num.numeral(s, e, start, end), R.NOT(num.sign(s - 1)))
    if variant == "NegativeInteger":
        return R.AND(p.inset(s, MINUS), num.numeral(s + 1, e, start, end), R.NOT(num.digit(s - 1)))
    if variant == "PositiveInteger":
        return R.OR(R.AND(p.inset(s, PLUS), num.numeral(s + 1, e, start, end), R.NOT(num.digit(s - 1))),
                    R.AND(num.numeral(s, e, start, end), R.NOT(num.sign(s - 1))))
    if variant == "Integer" and include_sign:
        return R.OR(R.AND(num.sign(s), num.numeral(s + 1, e, start, end), R.NOT(num.digit(s - 1))),
                    R.AND(num.numeral(s, e, start, end), R.NOT(num.sign(s - 1))))
    raise AssertionError(variant)


def py_integer_expected(variant, include_sign, text, start, end):
    """the same specification in plain Python (used by replay scripts and to validate the z3 spec)"""
    import re as _re
    out = []
    for m in _re.finditer(r"[0-9]+", text):
        i, j = m.span()
        run = text[i:j]
        ok = (len(run) == 1 or run[0] != "0") and start <= int(run) <= end
        if not ok:
            continue
        prev = text[i - 1] if i > 0 else ""
        pp = text[i - 2] if i > 1 else ""
        if variant == "Integer" and not include_sign:
            out.append((i, j))
        elif variant == "UnsignedInteger":
            if prev not in "+-" or prev == "":
                out.append((i, j))
        elif variant == "NegativeInteger":
            if prev == "-" and not pp.isdigit():
                out.append((i - 1, j))
        elif variant == "PositiveInteger":
            if prev == "+" and not pp.isdigit():
                out.append((i - 1, j))
            elif prev == "" or prev not in "+-":
                out.append((i, j))
        else:
            if prev != "" and prev in "+-" and not pp.isdigit():
                out.append((i - 1, j))
            elif prev == "" or prev not in "+-":
                out.append((i, j))
    return out
