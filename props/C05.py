"""C05 - the empty pattern is neutral in every construction."""
from vlib import common, dsl, progs
from props import progfam

PROP = "C05"
L = lambda s: ("lit", s)
O = lambda s: ("obj", s)
REGIONS = {}


def empties():
    a = L("a")
    return [("pre", ""), L(""), O("Pregex()"), ("exactly", a, 0), ("exactly", L("ab"), 0), ("concat", []), ("either", []),
            ("opt", ("pre", ""), True), ("star", L(""), False), ("plus", O("Pregex()"), True), ("between", L(""), 2, 3, True),
            ("group", ("pre", ""), False), ("group", L(""), True), ("capture", ("pre", ""), None), ("capture", L(""), "n"),
            ("fb", ("pre", ""), [L("")]), ("pb", L(""), [("pre", "")]), ("eb", ("pre", ""), [L("")]),
            ("atmost", a, 0, True), ("between", a, 0, 0, False), ("concat", [L(""), ("pre", "")]), ("either", [L(""), L("")]),
            ("enclose", L(""), [L("")]), ("exactly", ("mas", a), 0), ("atmost", ("fb", a, [L("b")]), 0, True),
            ("concat", [("exactly", a, 0)]), ("either", [("pre", "")]), ("exactly", ("either", [a, L("b")]), 0)]


def neighbours():
    a = L("a")
    return [L("x"), L("xy"), O("AnyLetter()"), ("either", [L("x"), L("yz")]), ("opt", L("x"), True), L("|"), L("["),
            ("capture", L("x"), None), ("mas", L("x")), ("nfb", L("x"), [L("y")]), O("WordBoundary()")]


def contexts(E, x):
    """E (an empty-pattern expression) in every operand position next to neighbour x"""
    yield ("concat", [x, E])
    yield ("concat", [E, x])
    yield ("concat", [x, E, x])
    yield ("either", [x, E])
    yield ("either", [x, E, L("w")])
    yield ("enclose", x, [E])
    yield ("enclose", E, [x])
    yield ("enclose", x, [E, L("w")])
    yield ("fb", x, [E])
    yield ("pb", x, [E])
    yield ("eb", x, [E])
    yield ("fb", x, [E, L("w")])
    yield ("fb", E, [x])
    yield ("pb", E, [x])
    yield ("nfb", x, [E])
    yield ("npb", x, [E])
    yield ("neb", x, [E])
    yield ("nfb", x, [L("w"), E])
    yield ("nfb", E, [x])
    yield ("npb", E, [x])


def alone(E):
    for g in (True, False):
        yield ("opt", E, g)
        yield ("star", E, g)
        yield ("plus", E, g)
        yield ("atleast", E, 2, g)
        yield ("atmost", E, 3, g)
        yield ("between", E, 1, 3, g)
    yield ("exactly", E, 3)
    yield ("exactly", E, 1)
    yield ("capture", E, None)
    yield ("capture", E, "k")
    yield ("group", E, False)
    yield ("group", E, True)
    yield ("mas", E)
    yield ("mae", E)
    yield ("mals", E)
    yield ("male", E)
    yield ("concat", [E])
    yield ("either", [E])
    yield ("concat", [E, E])
    yield ("either", [E, E])


def outer(p):
    z = L("z")
    yield ("concat", [p, z])
    yield ("concat", [z, p])
    yield ("either", [z, p])
    yield ("opt", p, True)
    yield ("plus", p, False)
    yield ("exactly", p, 2)
    yield ("capture", p, None)
    yield ("group", p, True)
    yield ("fb", z, [p])
    yield ("nfb", z, [p])
    yield ("pb", z, [p])
    yield ("enclose", z, [p])


def task_prog(e, Lmax):
    return progs.check_program(e, Lmax, mode="C05")


def family(tier):
    ps = []
    Es = empties()
    for E in Es:
        ps += list(alone(E))
        for x in neighbours():
            ps += list(contexts(E, x))
    d1 = progs.dedupe(ps)
    d2 = []
    # depth 2: an outer operator around every depth-1 construction (reduced empties in the quick tier)
    Es2 = Es if tier == "thorough" else Es[:3] + Es[3:4] + Es[11:13] + Es[23:24]
    xs2 = neighbours() if tier == "thorough" else neighbours()[:4]
    for E in Es2:
        inner = list(alone(E))
        for x in xs2:
            inner += list(contexts(E, x))
        for p in inner:
            d2 += list(outer(p))
    return d1, progs.dedupe(d2)


def run(tier):
    run = common.Run(PROP, tier)
    run.known.probe()
    run.functions = progfam.functions_pre()
    d1, d2 = family(tier)
    ps = progs.dedupe(d1 + d2)
    Lmax = 4 if tier == "quick" else 5
    run.add(common.run_tasks(__name__, [("task_prog", (e, Lmax)) for e in ps], progress=5000))
    run.triage(REGIONS)
    run.bounds = {"programs": "%d: %d ways an empty pattern arises x every operand position of every operator x %d neighbours (depth 1: %d), "
                  "each again under 12 outer operators (depth 2: %d)" % (len(ps), len(empties()), len(neighbours()), len(d1), len(d2)),
                  "text_length": "<= %d" % Lmax}
    run.assumptions = ["reference treats Empty as neutral (vlib/dsl.py): dropped from Concat/Enclose, returned unchanged by quantifiers/Group/Capture, "
                       "dropped as a later alternative, positive look-around on it is the identity, negative raises EmptyNegativeAssertionException",
                       "Either with the empty pattern as FIRST alternative is excluded (as in the property)"]
    return run.finish(explanation=progfam.EXPLANATION)
