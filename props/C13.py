from props import wrap


def run(tier):
    return wrap.run("C13", tier)
