"""C08 - capturing-group structure is exactly what the expression spells out."""
import itertools
from vlib import common, dsl, progs
from props import progfam

PROP = "C08"
L = lambda s: ("lit", s)
O = lambda s: ("obj", s)
REGIONS = {}


def operands(tier):
    a, b = L("a"), L("b")
    ops = [a, L("ab"), L("("), L(")"), L("(a)"), L("?:a"), L("(?:a)"), L("(?P<n>a)"), L("a(b"), L("(?i:a)"), L("\\(a\\)"), L("a)"),
           O("AnyLetter()"), O("AnyFrom('(', 'a')"), O("AnyFrom(')', 'a')"), O("AnyFrom('a', 'b')"),
           O("AnyFrom('\\\\', ')')"), O("AnyFrom('(', '\\\\', 'x')"), O("AnyBetween(')', '\\\\')"), O("AnyFrom('[', ']', '(')"), O("AnyButFrom('(', '\\\\')"),
           ("concat", [O("AnyFrom(')', '\\\\')"), L("b")]), ("capture", a, "n\u00e9"), ("capture", ("concat", [("capture", a, "i"), b]), "gr\u00f6\u00dfe"),
           ("either", [a, b]), ("either", [L("ab"), L("c")]), ("opt", L("ab"), True), ("plus", a, False),
           ("concat", [("either", [a, b]), L("c")]), ("concat", [("opt", L("ab"), True), L("c")]),
           ("concat", [a, O("AnyLetter()")]),
           ("fb", a, [b]), ("pb", a, [b]), ("nfb", a, [b]), ("npb", a, [b]), ("eb", a, [b]),
           ("fb", L(""), [b]), ("npb", O("Pregex()"), [b]), ("nfb", L(""), [b]), ("pb", L(""), [b]),
           ("mas", a), ("male", a), ("concat", [O("WordBoundary()"), a]),
           ("capture", a, None), ("capture", a, "x"), ("capture", L("ab"), "y"), ("group", L("ab"), False), ("group", L("ab"), True),
           ("concat", [("capture", a, None), ("capture", b, "x")]), ("concat", [("capture", a, "x"), ("capture", b, None)]),
           ("either", [("capture", a, "x"), ("capture", b, "y")]), ("opt", ("capture", a, None), True),
           ("concat", [("group", a, False), ("group", b, True)]), ("capture", ("concat", [("capture", a, "x"), b]), "y"),
           ("capture", ("capture", a, "x"), None), ("group", ("capture", a, "x"), False),
           ("concat", [("capture", L("a"), "x"), ("cond", "x", b, L("c"))]),
           ("concat", [("opt", ("capture", L("a"), "x"), True), ("cond", "x", b, None)]),
           ("concat", [("capture", a, "x"), ("cond", "x", ("either", [b, L("cd")]), L("e"))]),
           ("concat", [("capture", a, "x"), ("cond", "x", L("b."), L("c|d"))]),
           ("concat", [("capture", a, "x"), ("bref", "x")]),
           # runs of escaped backslashes directly before / after a nested group's parenthesis (group detection masks "\\\\" pairs)
           ("concat", [L("C:\\\\"), ("capture", L("dir"), "d"), L("!")]), ("concat", [L("\\\\"), ("capture", a, None)]),
           ("concat", [("capture", a, None), L("\\\\")]), ("concat", [L("\\"), ("group", L("ab"), False), L("\\\\\\")])]
    return ops


def wraps(x, depth, tier):
    """nestings of Capture / Group around x"""
    names = [None, "n", "m"]
    layer = [("capture", x, None), ("capture", x, "n"), ("group", x, False), ("group", x, True), ("capture", x, "n\u00e9")]
    out = list(layer)
    cur = layer
    for d in range(1, depth):
        nxt = []
        for y in cur:
            nxt += [("capture", y, None), ("capture", y, "m" if d == 1 else "k"), ("group", y, False), ("group", y, True)]
        out += nxt
        cur = nxt
    return out


def contexts(p):
    z = L("z")
    yield p
    yield ("concat", [p, z])
    yield ("concat", [("capture", L("w"), None), p])
    yield ("concat", [p, ("capture", L("w"), "q")])
    yield ("either", [p, z])
    yield ("opt", p, True)
    yield ("exactly", p, 2)


def invalid_names():
    a = L("a")
    for nm in ["1a", "a-b", "", "a b", "a\n", "é", "a.b", "_", "A1_", 5, 1.5, True, ["n"], b"n"]:
        yield ("capture", a, nm)
        yield ("capture", ("capture", a, "x"), nm)
        yield ("capture", ("group", a, False), nm)


def task_prog(e, Lmax, outcomes=None):
    return progs.check_program(e, Lmax, mode="C08", outcomes=outcomes)


def family(tier):
    ps = []
    depth = 3
    for x in operands(tier):
        ws = wraps(x, depth, tier)
        if tier == "quick":
            # depth 1 and 2 complete; depth 3 only in the bare context
            for w in ws[:25]:
                ps += list(contexts(w))
            ps += ws[25:]
        else:
            for w in ws:
                ps += list(contexts(w))
    ps += list(invalid_names())
    return progs.dedupe(ps)


def run(tier):
    run = common.Run(PROP, tier)
    run.known.probe()
    run.functions = progfam.functions_pre()
    ps = family(tier)
    Lmax = 4 if tier == "quick" else 5
    so = progs.with_seed_outcomes(ps, list(range(6)) if tier == "quick" else list(range(16)))
    run.add(common.run_tasks(__name__, [("task_prog", (e, Lmax, so.get(i))) for i, e in enumerate(ps)], progress=5000))
    run.info = {"programs_evaluated_under_several_hash_seeds": len(so)}
    run.triage(REGIONS)
    run.bounds = {"programs": "%d: Capture(name|None)/Group(ci) nestings of depth <= 3 around %d operand kinds (literals containing ( ) ?: ?P<, classes "
                  "containing parentheses, alternations, quantified, look-arounds incl. on the empty pattern, conditionals, backreferences, "
                  "captures), in 7 contexts; plus invalid group names" % (len(ps), len(operands(tier))),
                  "text_length": "<= %d" % Lmax}
    run.assumptions = ["reference capture list per documented rules (vlib/dsl.py): Capture of a capture adds none, Capture(Group(p)) converts (flag-less group), "
                       "Group(Capture(p)) un-captures, (re)naming touches only the outermost group, is_case_insensitive scopes exactly that group's content",
                       "first the real parser's group count / name map must equal the expression's capture list; then spans and group spans are compared "
                       "over all texts (exact encoding); patterns with backreferences are compared on group structure only",
                       "expressions that spell one group name twice are outside the property (invalid in re by construction)"]
    return run.finish(explanation=progfam.EXPLANATION)
