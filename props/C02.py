"""C02 - composition keeps every sub-pattern intact (automatic grouping).

Programs (expression trees) are enumerated; for each, the pattern emitted by the real code - in class,
method-chaining and operator spelling - is compared with the fully parenthesised reference over ALL texts
up to length L by the exact (backtracking-order) SMT encoding of finditer: spans and capture spans.
"""
import itertools, random
from vlib import common, dsl, progs

PROP = "C02"

L = lambda s: ("lit", s)
O = lambda s: ("obj", s)

LITS = ["a", "ab", "|", "a|b", "(", ")", "(a)", "[", "]", "[a]", "[a", "a]", "$", "a$", "^", "^a", "?", "a?", "*", "+",
        "a+", "{", "}", "a{2}", "\\", "a\\", "\\a", ".", "/", "a\nb", "\n", "US$", "(?:", "(?=a)", "\\b", "\\d", "-", "a-b",
        "\\\\", "a.b", "x*y", "{2}", "(?P<n>", "a b"]
OBJS = ["AnyLetter()", "AnyDigit()", "AnyFrom('a', 'b')", "AnyButFrom('a')", "Any()", "Newline()", "Backslash()",
        "WordBoundary()", "NonWordBoundary()", "AnyWhitespace()", "AnyWordChar()", "AnyBetween('a', 'c')", "Dollar()",
        "AnyButDigit()", "Space()", "AnyFrom('a', '\\\\')", "AnyFrom('(', '\\\\')", "AnyFrom(']', '[', '|')"]
CORE_LITS = ["a", "ab", "|", "[", "a$", "^a", "a?", "\\", "(a)", "a\nb", "a|b", "]", "US$", "{2}"]
CORE_OBJS = ["AnyLetter()", "AnyFrom('a', 'b')", "Any()", "Newline()", "WordBoundary()", "Backslash()", "AnyButFrom('a')"]


def composites():
    a, b, ab, c = L("a"), L("b"), L("ab"), L("c")
    return [
        ("opt", a, True), ("opt", ab, False), ("plus", ab, True), ("star", a, False), ("exactly", a, 2), ("exactly", ab, 2),
        ("between", ab, 1, 2, True), ("atleast", a, 2, False),
        ("either", [a, b]), ("either", [ab, c]), ("either", [a, ab]), ("either", [L("["), O("AnyLetter()")]),
        ("either", [O("AnyLetter()"), L("]")]), ("either", [L("a|b"), c]),
        ("concat", [a, O("AnyLetter()")]), ("concat", [ab, c]), ("concat", [O("AnyDigit()"), O("AnyLetter()")]),
        ("group", ab, False), ("group", ab, True), ("capture", a, None), ("capture", ab, "n"),
        ("mas", a), ("mae", a), ("mals", ab), ("male", a),
        ("fb", a, [b]), ("nfb", a, [b]), ("pb", a, [b]), ("npb", a, [b]), ("eb", a, [b]), ("neb", a, [b]),
        ("enclose", a, [b]), ("concat", [O("WordBoundary()"), a]), ("concat", [a, O("WordBoundary()")]),
        ("either", [("opt", a, True), b]), ("concat", [("either", [a, b]), c]),
        ("either", [O("AnyFrom('c', '\\\\')"), O("AnyFrom('0', '5')")]), ("either", [O("AnyFrom('0', '5')"), O("AnyFrom('\\\\', 'c')")]),
        ("concat", [O("AnyFrom('\\\\', ')')"), O("AnyFrom('(', 'x')")]),
        # alternations whose outer branches begin / end with an anchor or a lookaround (the text then looks like an assertion)
        ("either", [("mas", a), ("mae", b)]), ("either", [("mals", a), c, ("male", b)]), ("either", [("mas", a), b]),
        ("either", [a, ("mae", b)]), ("either", [("pb", a, [b]), ("fb", c, [b])]), ("either", [("fb", a, [b]), c]),
        ("either", [O("WordBoundary()"), a]), ("either", [("npb", a, [b]), ("nfb", c, [b])]),
        # concatenated groups whose classes hold unbalanced parentheses (the text "(..[(..])(..[)..])" must not be read as ONE group)
        ("concat", [("capture", ("concat", [L("f"), O("AnyFrom('(', '<')")]), None), ("capture", ("concat", [L("x"), O("AnyFrom(')', '>')")]), None)]),
        ("concat", [("group", O("AnyFrom('(', '<')"), False), ("group", O("AnyFrom(')', '>')"), False)]),
        ("concat", [("capture", L("("), None), ("capture", L(")"), None)]),
    ]


def unary_ops(x):
    yield ("opt", x, True)
    yield ("opt", x, False)
    yield ("star", x, True)
    yield ("plus", x, False)
    yield ("exactly", x, 2)
    yield ("atleast", x, 2, True)
    yield ("atmost", x, 2, False)
    yield ("between", x, 1, 2, True)
    yield ("capture", x, None)
    yield ("capture", x, "g")
    yield ("group", x, False)
    yield ("group", x, True)
    yield ("mas", x)
    yield ("mae", x)
    yield ("mals", x)
    yield ("male", x)


def binary_ops(x, y):
    yield ("concat", [x, y])
    yield ("concat", [y, x])
    yield ("either", [x, y])
    yield ("either", [y, x])
    yield ("enclose", x, [y])
    yield ("enclose", y, [x])
    yield ("fb", x, [y])
    yield ("nfb", x, [y])
    yield ("pb", x, [y])
    yield ("npb", x, [y])
    yield ("eb", x, [y])
    yield ("neb", x, [y])


def family(tier):
    leaves = [L(s) for s in LITS] + [O(s) for s in OBJS]
    core = [L(s) for s in CORE_LITS] + [O(s) for s in CORE_OBJS]
    comps = composites()
    progs_ = []
    # depth 1: every unary op over every leaf and composite; binary ops: leaf x core partner
    for x in leaves + comps:
        progs_ += list(unary_ops(x))
    partners = [L("x"), L("xy"), O("AnyLetter()"), L("|"), L("[")]
    for x in leaves + comps:
        for y in partners:
            progs_ += list(binary_ops(x, y))
    # depth 2: op(op(x, y), z) and op(z, unary(x)) on the core pool
    d2 = []
    z = L("x")
    for x in core + comps:
        for inner in list(binary_ops(x, L("y")))[:6] + list(unary_ops(x))[:10]:
            for outer in list(unary_ops(inner))[:12]:
                d2.append(outer)
            for outer in list(binary_ops(inner, z))[:8]:
                d2.append(outer)
    # depth 3 with a fixed outer pair (thorough)
    d3 = []
    if tier == "thorough":
        for p in d2[::3]:
            d3.append(("concat", [("opt", p, True), z]))
            d3.append(("either", [("plus", p, False), z]))
    # three-operand forms
    t3 = []
    for x, y in itertools.product(core[:10], core[:10]):
        t3.append(("concat", [x, y, L("z")]))
        t3.append(("either", [x, y, L("z")]))
        t3.append(("enclose", x, [y, L("z")]))
    return progs_, d2, d3, t3


def dedupe(ps):
    seen, out = set(), []
    for p in ps:
        k = repr(p)
        if k not in seen:
            seen.add(k)
            out.append(p)
    return out


def task_prog(e, Lmax, outcomes=None):
    return progs.check_program(e, Lmax, mode="C02", outcomes=outcomes)


# ---- known findings (regions are predicates over the failing program / emitted text) -------------

REGIONS = {}


def run(tier):
    run = common.Run(PROP, tier)
    run.known.probe()
    common.import_pregex()
    import pregex.core.pre as pre
    P = pre.Pregex
    run.functions = common.src_fingerprint(common.resolve([(P, "_Pregex__infer_type"), (P, "_concat_conditional_group"), (P, "_quantify_conditional_group"), (P, "_assert_conditional_group"), (P, "concat"), (P, "either"), (P, "enclose"), (P, "capture"), (P, "group"), (P, "optional"), (P, "indefinite"), (P, "one_or_more"), (P, "exactly"), (P, "at_least"), (P, "at_most"), (P, "at_least_at_most"), (P, "followed_by"), (P, "preceded_by"), (P, "enclosed_by"), (P, "not_followed_by"), (P, "not_preceded_by"), (P, "not_enclosed_by"), (P, "match_at_start"), (P, "match_at_end"), (P, "match_at_line_start"), (P, "match_at_line_end"), (P, "__add__"), (P, "__radd__"), (P, "__mul__"), (P, "__rmul__")]))
    d1, d2, d3, t3 = family(tier)
    rnd = random.Random(common.SEED)
    if tier == "quick":
        Lmax = 4
    else:
        Lmax = 6
    allp = dedupe(d1 + d2 + d3 + t3)
    so = progs.with_seed_outcomes(allp, list(range(4)) if tier == "quick" else list(range(12)))
    run.info = {"programs_evaluated_under_several_hash_seeds": len(so)}
    tasks = [("task_prog", (e, Lmax, so.get(i))) for i, e in enumerate(allp)]
    run.add(common.run_tasks(__name__, tasks, progress=1000))
    run.triage(REGIONS)
    run.bounds = {"programs": "%d expression trees (depth 1 exhaustive over %d leaves + %d composites; depth 2%s; 3-operand forms)" %
                  (len(allp), len(LITS) + len(OBJS), len(composites()), "" if tier == "quick" else " and depth 3 with fixed outer pair"),
                  "text_length": "<= %d, every character of Unicode (minterm abstraction)" % Lmax,
                  "spellings": "class / method chaining / operator (+, *) where one exists"}
    run.assumptions = ["reference = fully parenthesised composition (vlib/dsl.py ref); leaf objects contribute their own emitted text (C06 decides leaves), "
                       "plain strings contribute re.escape(s)",
                       "raise/no-raise disagreements are decided by C03/C09/C10, not here (counted as skipped)",
                       "patterns with capture groups inside look-arounds or backreferences are outside the exact encoding (inconclusive)"]
    return run.finish(explanation="Exact SMT encoding of CPython's backtracking matcher and finditer scan (vlib/rexsat.Exact) for the emitted "
                      "pattern and for the reference; z3 searches a text (all lengths up to L, all of Unicode) on which match spans or capture "
                      "spans differ. unsat = equivalent within the bound.")
