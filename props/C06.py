"""C06 - class constructors denote exactly the requested character sets.

Arguments are enumerated from a boundary pool (every in-class metacharacter and its neighbours, tokens); each
construction runs on the real code under several real interpreter hash seeds; for every distinct emitted
class z3 decides membership over the WHOLE code-point range against the specified set."""
import itertools, random
from vlib import common
from props import clsmodel as M

PROP = "C06"
POOL = ["\\", "]", "[", "^", "-", "/", "$", ".", "a", "b", "c", "z", "A", "Z", "0", "9", "_", " ", "\n", "\t", "!", "~", "{", "|",
        "(", ")", "*", "+", "?", ",", "'", '"', "\x00", "\x7f", "é", "€", "\U0001F600", "`", "@", ":", ";", "Z", "["]
POOL = list(dict.fromkeys(POOL))
CORE = ["\\", "]", "[", "^", "-", "/", "$", ".", "a", "b", "z", "0", "\n", "(", "+", "?", "{", "€"]
TOKS = list(M.TOKENS)


def C(ch):
    return ("c", ch)


def T(n):
    return ("t", n)


def family(tier):
    ex = [("Any",)]
    for nm in M.NAMED:
        ex += [("named", nm, False), ("named", nm, True)]
    ex += [("named", "WordChar", False, True), ("named", "WordChar", True, True)]
    for t in TOKS:
        ex.append(("AnyFrom", [T(t)]))         # the token's own character via the class route
        ex.append(("AnyButFrom", [T(t)]))
    # one argument
    for ch in POOL:
        ex += [("AnyFrom", [C(ch)]), ("AnyButFrom", [C(ch)])]
    # two arguments: full pool squared (ordered, both orders matter for text assembly)
    pool2 = POOL if tier == "thorough" else CORE + ["c", "A", "9", "`", " "]
    for a, b in itertools.product(pool2, repeat=2):
        ex.append(("AnyFrom", [C(a), C(b)]))
        if tier == "thorough" or (a in CORE[:8] or b in CORE[:8]):
            ex.append(("AnyButFrom", [C(a), C(b)]))
    # tokens mixed with characters
    for t in TOKS:
        for ch in CORE[:10]:
            ex.append(("AnyFrom", [T(t), C(ch)]))
            ex.append(("AnyFrom", [C(ch), T(t)]))
    # three arguments
    rnd = random.Random(common.SEED)
    trip = list(itertools.product(CORE[:9] + ["a", "b", "c"], repeat=3))
    if tier == "quick":
        trip = rnd.sample(trip, 500)
    for a, b, c in trip:
        ex.append(("AnyFrom", [C(a), C(b), C(c)]))
    for a, b, c in rnd.sample(trip, min(len(trip), 300)):
        ex.append(("AnyButFrom", [C(a), C(b), C(c)]))
    # ranges: every ordered pair (valid and invalid), tokens as endpoints
    for a, b in itertools.product(POOL, repeat=2):
        ex.append(("AnyBetween", C(a), C(b)))
        if tier == "thorough" or a in CORE or b in CORE:
            ex.append(("AnyButBetween", C(a), C(b)))
    for t in TOKS:
        for ch in ["a", "~", "\x00", "€", "\\", "]"]:
            ex += [("AnyBetween", T(t), C(ch)), ("AnyBetween", C(ch), T(t))]
    # invalid arguments
    bad = [("x", "ab"), ("x", ""), ("x", 5), ("x", None), ("x", 1.5), ("x", ["a"]), ("x", b"a"), ("x", True), ("x", "\\\\"), ("x", "\\n")]
    for bkind in bad:
        ex += [("AnyFrom", [bkind]), ("AnyFrom", [C("a"), bkind]), ("AnyButFrom", [bkind, C("a")]),
               ("AnyBetween", bkind, C("z")), ("AnyBetween", C("a"), bkind), ("AnyButBetween", bkind, C("z"))]
    ex += [("AnyFrom", []), ("AnyButFrom", [])]
    seen, out = set(), []
    for e in ex:
        k = repr(e)
        if k not in seen:
            seen.add(k)
            out.append(e)
    return out


def task_chunk(exprs, seed_list):
    return M.check_exprs(exprs, seed_list, PROP)


# ---- known findings: regions over the failing expression ----------------------------------------------------------

def _args(e):
    if e[0] in ("AnyFrom", "AnyButFrom"):
        return list(e[1])
    if e[0] in ("AnyBetween", "AnyButBetween"):
        return [e[1], e[2]]
    return []


def _chars(e):
    out = []
    for a in _args(e):
        try:
            out.append(M.char_of(a))
        except Exception:
            out.append(None)
    return out


REGIONS = {}


def run(tier):
    run = common.Run(PROP, tier)
    run.known.probe()
    common.import_pregex()
    import pregex.core.classes as cl, pregex.core.tokens as tk
    base = cl.Any.__mro__[1]
    run.functions = common.src_fingerprint([base.__init__, base._Class__process, base._Class__chars_to_ranges,
                                            base._Class__verbose_to_shorthand, base._Class__extract_classes,
                                            base._Class__separate_classes, base._Class__modify_classes, base._Class__split_range,
                                            cl.AnyFrom.__init__, cl.AnyButFrom.__init__, cl.AnyBetween.__init__, cl.AnyButBetween.__init__,
                                            tk.Backslash.__init__, tk.Dollar.__init__])
    ex = family(tier)
    seed_list = list(range(8)) if tier == "quick" else list(range(32))
    n = 120
    tasks = [("task_chunk", (ex[i:i + n], seed_list)) for i in range(0, len(ex), n)]
    run.add(common.run_tasks(__name__, tasks))
    run.triage(REGIONS)
    run.bounds = {"expressions": "%d constructor calls: all named classes and tokens; AnyFrom/AnyButFrom with 1, 2 (pool squared) and 3 arguments; "
                  "AnyBetween/AnyButBetween over every ordered pair of a %d-character pool; tokens as arguments; invalid arguments" % (len(ex), len(POOL)),
                  "candidate": "every code point 0..0x10FFFF (z3 Int), minus Unicode-only members of \\d \\s \\w",
                  "hash_seeds": "PYTHONHASHSEED in %s (real interpreters, enumerated)" % (seed_list if len(seed_list) < 10 else "0..%d" % (len(seed_list) - 1))}
    run.assumptions = ["specified sets written from the documentation (props/clsmodel.py NAMED, TOKENS)",
                       "argument characters come from a boundary pool (the E1 engine quantifies over all characters when present)",
                       "hash seeds are an enumerated configuration dimension, not a solver variable"]
    return run.finish(explanation="For each constructor call the real code is executed (under each hash seed); the emitted class text is read by "
                      "CPython's parser into interval/category items and z3 decides, over the whole code-point range, whether any candidate "
                      "character's membership differs from the specified set; documented exceptions are compared by class.")
