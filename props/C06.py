"""C06 - class constructors denote exactly the requested character sets.

Arguments are enumerated from a boundary pool (every in-class metacharacter and its neighbours, tokens); each
construction runs on the real code under several real interpreter hash seeds; for every distinct emitted
class z3 decides membership over the WHOLE code-point range against the specified set."""
import itertools, random
from vlib import common
from props import clsmodel as M

PROP = "C06"
POOL = ["\\", "]", "[", "^", "-", "/", "$", ".", "a", "b", "c", "z", "A", "Z", "0", "9", "_", " ", "\n", "\t", "!", "~", "{", "|",
        "(", ")", "*", "+", "?", ",", "'", '"', "\x00", "\x7f", "é", "€", "\U0001F600", "`", "@", ":", ";", "Z", "["]
POOL = list(dict.fromkeys(POOL))
CORE = ["\\", "]", "[", "^", "-", "/", "$", ".", "a", "b", "z", "0", "\n", "(", "+", "?", "{", "€"]
TOKS = list(M.TOKENS)


def C(ch):
    return ("c", ch)


def T(n):
    return ("t", n)


def family(tier):
    ex = [("Any",)]
    for nm in M.NAMED:
        ex += [("named", nm, False), ("named", nm, True)]
    ex += [("named", "WordChar", False, True), ("named", "WordChar", True, True)]
    for t in TOKS:
        ex.append(("AnyFrom", [T(t)]))         # the token's own character via the class route
        ex.append(("AnyButFrom", [T(t)]))
    # one argument
    for ch in POOL:
        ex += [("AnyFrom", [C(ch)]), ("AnyButFrom", [C(ch)])]
    # two arguments: full pool squared (ordered, both orders matter for text assembly)
    pool2 = POOL if tier == "thorough" else CORE + ["c", "A", "9", "`", " "]
    for a, b in itertools.product(pool2, repeat=2):
        ex.append(("AnyFrom", [C(a), C(b)]))
        if tier == "thorough" or (a in CORE[:8] or b in CORE[:8]):
            ex.append(("AnyButFrom", [C(a), C(b)]))
    # tokens mixed with characters
    for t in TOKS:
        for ch in CORE[:10]:
            ex.append(("AnyFrom", [T(t), C(ch)]))
            ex.append(("AnyFrom", [C(ch), T(t)]))
    # three arguments
    rnd = random.Random(common.SEED)
    trip = list(itertools.product(CORE[:9] + ["a", "b", "c"], repeat=3))
    if tier == "quick":
        trip = rnd.sample(trip, 500)
    for a, b, c in trip:
        ex.append(("AnyFrom", [C(a), C(b), C(c)]))
    for a, b, c in rnd.sample(trip, min(len(trip), 300)):
        ex.append(("AnyButFrom", [C(a), C(b), C(c)]))
    # ranges: every ordered pair (valid and invalid), tokens as endpoints
    for a, b in itertools.product(POOL, repeat=2):
        ex.append(("AnyBetween", C(a), C(b)))
        if tier == "thorough" or a in CORE or b in CORE:
            ex.append(("AnyButBetween", C(a), C(b)))
    for t in TOKS:
        for ch in ["a", "~", "\x00", "€", "\\", "]"]:
            ex += [("AnyBetween", T(t), C(ch)), ("AnyBetween", C(ch), T(t))]
    # invalid arguments
    bad = [("x", "ab"), ("x", ""), ("x", 5), ("x", None), ("x", 1.5), ("x", ["a"]), ("x", b"a"), ("x", True), ("x", "\\\\"), ("x", "\\n")]
    for bkind in bad:
        ex += [("AnyFrom", [bkind]), ("AnyFrom", [C("a"), bkind]), ("AnyButFrom", [bkind, C("a")]),
               ("AnyBetween", bkind, C("z")), ("AnyBetween", C("a"), bkind), ("AnyButBetween", bkind, C("z"))]
    ex += [("AnyFrom", []), ("AnyButFrom", [])]
    seen, out = set(), []
    for e in ex:
        k = repr(e)
        if k not in seen:
            seen.add(k)
            out.append(e)
    return out


def task_chunk(exprs, seed_list):
    return M.check_exprs(exprs, seed_list, PROP)


# ---- known findings: regions over the failing expression ----------------------------------------------------------

def _args(e):
    if e[0] in ("AnyFrom", "AnyButFrom"):
        return list(e[1])
    if e[0] in ("AnyBetween", "AnyButBetween"):
        return [e[1], e[2]]
    return []


def _chars(e):
    out = []
    for a in _args(e):
        try:
            out.append(M.char_of(a))
        except Exception:
            out.append(None)
    return out


REGIONS = {}


def e1_cases(tier):
    """symbolic ARGUMENT characters and a symbolic CANDIDATE code point: membership of c in the emitted class (read by the real parser)
    equals membership in the requested set, for every argument character and every candidate"""
    from vlib.symx import engine
    cs = []
    C = [("c", "int")]
    rng = "0 <= c and c <= 1114111"
    one = [("A0", "str")] + C
    for ctor, neg in (("AnyFrom", False), ("AnyButFrom", True)):
        want = "(c == ord(A0))"
        body = "p = %s(A0)\nreturn member_ok(str(p), c, (%s%s))" % (ctor, "not " if neg else "", want)
        cs.append(engine.raw_case(body, one, ["len(A0) == 1 and " + rng], "%s(a): candidate c matched iff %sc == a (a, c symbolic)" % (ctor, "not " if neg else "")))
        for other in ("b", "[", "-", "\\\\", "]", "^"):
            want = "(c == ord(A0) or c == %d)" % ord(other[-1] if other != "\\\\" else "\\")
            lit = "'%s'" % other
            for order in ("%s(A0, %s)" % (ctor, lit), "%s(%s, A0)" % (ctor, lit)):
                if tier == "quick" and (neg or order.endswith("A0)")) and other not in ("[",):
                    continue
                body = "p = %s\nreturn member_ok(str(p), c, (%s%s))" % (order, "not " if neg else "", want)
                cs.append(engine.raw_case(body, one, ["len(A0) == 1 and " + rng], "%s: candidate c matched iff %sc in {a, %s} (a, c symbolic)" % (order, "not " if neg else "", other)))
    for ctor, neg in (("AnyBetween", False), ("AnyButBetween", True)):
        for fixed, first in (("m", False), ("m", True), ("[", False), ("-", True)):
            call = "%s('%s', A0)" % (ctor, fixed) if first else "%s(A0, '%s')" % (ctor, fixed)
            lo, hi = ("%d" % ord(fixed), "ord(A0)") if first else ("ord(A0)", "%d" % ord(fixed))
            if tier == "quick" and (neg or fixed in ("-",)):
                continue
            body = ("try:\n    p = %s\nexcept InvalidRangeException:\n    return %s >= %s\n"
                    "if %s >= %s:\n    return False\n"
                    "return member_ok(str(p), c, (%s(%s <= c and c <= %s)))") % (call, lo, hi, lo, hi, "not " if neg else "", lo, hi)
            cs.append(engine.raw_case(body, one, ["len(A0) == 1 and " + rng], "%s: range membership / InvalidRangeException iff start >= end (a, c symbolic)" % call))
    if tier == "thorough":
        two = [("A0", "str"), ("A1", "str")] + C
        body = "p = AnyFrom(A0, A1)\nreturn member_ok(str(p), c, (c == ord(A0) or c == ord(A1)))"
        cs.append(engine.raw_case(body, two, ["len(A0) == 1 and len(A1) == 1 and " + rng], "AnyFrom(a, b): candidate matched iff c in {a, b} (a, b, c symbolic)"))
        body = ("try:\n    p = AnyBetween(A0, A1)\nexcept InvalidRangeException:\n    return ord(A0) >= ord(A1)\nif ord(A0) >= ord(A1):\n    return False\n"
                "return member_ok(str(p), c, (ord(A0) <= c and c <= ord(A1)))")
        cs.append(engine.raw_case(body, two, ["len(A0) == 1 and len(A1) == 1 and " + rng], "AnyBetween(a, b): range membership (a, b, c symbolic)"))
    return cs


def run(tier):
    run = common.Run(PROP, tier)
    run.known.probe()
    common.import_pregex()
    import pregex.core.classes as cl, pregex.core.tokens as tk
    base = cl.Any.__mro__[1]
    run.functions = common.src_fingerprint(common.resolve([(base, "__init__"), (base, "_Class__process"), (base, "_Class__chars_to_ranges"), (base, "_Class__verbose_to_shorthand"), (base, "_Class__extract_classes"), (base, "_Class__separate_classes"), (base, "_Class__modify_classes"), (base, "_Class__split_range"), (cl.AnyFrom, "__init__"), (cl.AnyButFrom, "__init__"), (cl.AnyBetween, "__init__"), (cl.AnyButBetween, "__init__"), (tk.Backslash, "__init__"), (tk.Dollar, "__init__")]))
    ex = family(tier)
    seed_list = list(range(8)) if tier == "quick" else list(range(32))
    n = 120
    tasks = [("task_chunk", (ex[i:i + n], seed_list)) for i in range(0, len(ex), n)]
    run.add(common.run_tasks(__name__, tasks))
    from vlib.symx import engine
    cases = e1_cases(tier)
    outs = engine.run_cases(cases, per_condition_timeout=420 if tier == "quick" else 3000)
    run.add(engine.to_results(cases, outs))
    run.info = {"crosshair_harnesses": len(cases), "crosshair_paths_explored": sum(r.get("paths", 0) for r in run.results)}
    run.triage(REGIONS)
    run.bounds = {"expressions": "%d constructor calls: all named classes and tokens; AnyFrom/AnyButFrom with 1, 2 (pool squared) and 3 arguments; "
                  "AnyBetween/AnyButBetween over every ordered pair of a %d-character pool; tokens as arguments; invalid arguments" % (len(ex), len(POOL)),
                  "candidate": "every code point 0..0x10FFFF (z3 Int), minus Unicode-only members of \\d \\s \\w",
                  "E1": "%d CrossHair harnesses: one (thorough: two) SYMBOLIC argument character(s) and a SYMBOLIC candidate code point: membership read from the real "
                        "parser's tree equals membership in the requested set; InvalidRangeException iff start >= end" % len(cases),
                  "hash_seeds": "PYTHONHASHSEED in %s (real interpreters, enumerated)" % (seed_list if len(seed_list) < 10 else "0..%d" % (len(seed_list) - 1))}
    run.assumptions = ["specified sets written from the documentation (props/clsmodel.py NAMED, TOKENS)",
                       "argument characters come from a boundary pool (the E1 engine quantifies over all characters when present)",
                       "hash seeds are an enumerated configuration dimension, not a solver variable"]
    return run.finish(explanation="For each constructor call the real code is executed (under each hash seed); the emitted class text is read by "
                      "CPython's parser into interval/category items and z3 decides, over the whole code-point range, whether any candidate "
                      "character's membership differs from the specified set; documented exceptions are compared by class.")
