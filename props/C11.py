from props import wrap


def run(tier):
    return wrap.run("C11", tier)
