"""C16 - Decimal patterns constrain integer part and fraction length exactly.

Real code builds each concrete pattern; the text is symbolic (relational E2b encoding):
  (a) whole text:   fullmatch(t)  <=>  t = [sign] [int-part] '.' frac   per the documented rules
  (b) embedded:     for every span (i, j) with neutral neighbours (text edge / space):
                        M(i, j) <=> text[i:j] is such a numeral
                    and no match starts right after a digit or ends right before a digit
  (c) extensible:   bare X(..., is_extensible=True), spans starting at i >= 1: never right after a digit (documented);
                    UnsignedDecimal never right after a sign; otherwise (non-digit before, no digit after, and -
                    for the signed variants - a sign at the start of the span) M(i, j) <=> numeral
"""
import time, z3
from vlib import rexsat as R, charset as cs, common
from vlib.charset import ISet
from props import numspec as NS

PROP = "C16"
VARIANTS = [("Decimal", False), ("Decimal", True), ("PositiveDecimal", None),
            ("NegativeDecimal", None), ("UnsignedDecimal", None)]
SPACE = ISet.of(" ")
REGIONS = {}


def ctor_src(variant, inc, start, end, mn, mx, ext):
    a = "%d, %d, %d, %r" % (start, end, mn, mx)
    if variant == "Decimal":
        a += ", include_sign=%r" % bool(inc)
    return "%s(%s, is_extensible=%r)" % (variant, a, ext)


def build(variant, inc, start, end, mn, mx, ext):
    common.import_pregex()
    common.note_construction(ctor_src(variant, inc, start, end, mn, mx, ext))
    import pregex.meta.essentials as me
    cls = getattr(me, variant)
    if variant == "Decimal":
        return cls(start, end, mn, mx, include_sign=bool(inc), is_extensible=ext)
    return cls(start, end, mn, mx, is_extensible=ext)


def sign_rule(variant, inc, ext):
    """(allowed sign set or None, mandatory?)"""
    if variant == "Decimal":
        if not inc:
            return None, False
        return NS.SIGNS, bool(ext)
    if variant == "PositiveDecimal":
        return NS.PLUS, bool(ext)
    if variant == "NegativeDecimal":
        return NS.MINUS, True
    return None, False


def spec_numeral(num, variant, inc, ext, i, j, start, end, mn, mx):
    """text[i:j] is a decimal numeral of this variant"""
    p = num.p
    sg, mandatory = sign_rule(variant, inc, ext)
    alts = []
    for signed in ((False, True) if sg is not None else (False,)):
        if mandatory and not signed:
            continue
        a = i + (1 if signed else 0)
        if a > j:
            continue
        sc = p.inset(i, sg) if signed else True
        for dot in range(a, j):
            nfrac = j - dot - 1
            if nfrac < mn or (mx is not None and nfrac > mx):
                continue
            if dot == a:
                ip = (start == 0)
            else:
                ip = R.AND(num.alldig(a, dot), num.canonical_in_range(a, dot, start, end))
            if ip is False:
                continue
            alts.append(R.AND(sc, ip, p.inset(dot, NS.DOT), num.alldig(dot + 1, j)))
    return R.OR(*alts)


PY_SPEC = '''
def py_decimal(t, variant, inc, ext, start, end, mn, mx):
    sg, mandatory = {"Decimal": ("+-" if inc else "", bool(ext) and bool(inc)), "PositiveDecimal": ("+", bool(ext)),
                     "NegativeDecimal": ("-", True), "UnsignedDecimal": ("", False)}[variant]
    signed = len(t) > 0 and t[0] in sg and sg != ""
    if mandatory and not signed: return False
    body = t[1:] if signed else t
    if body.count(".") != 1: return False
    ip, fr = body.split(".")
    dig = lambda s: s != "" and all(c in "0123456789" for c in s)
    if not dig(fr) or len(fr) < mn or (mx is not None and len(fr) > mx): return False
    if ip == "": return start == 0
    return dig(ip) and (len(ip) == 1 or ip[0] != "0") and start <= int(ip) <= end
'''


def _script(src, variant, inc, ext, start, end, mn, mx, text, i, j):
    return PY_SPEC + (
        "p = %s\ntext = %r\ni, j = %d, %d\next = %r\nvariant = %r\n"
        "span = text[i:j]\n"
        "want = py_decimal(span, variant, %r, ext, %d, %d, %d, %r)\n"
        "D = '0123456789'\n"
        "rx = re.compile('(?:%%s)(?=[\\\\s\\\\S]{%%d}\\\\Z)' %% (str(p), len(text) - j), FLAGS)\n"
        "got = rx.match(text, i) is not None\n"
        "if not ext:\n"
        "    glued = (i > 0 and text[i-1] in D) or (j < len(text) and text[j] in D)\n"
        "    neutral = (i == 0 or text[i-1] == ' ') and (j == len(text) or text[j] == ' ')\n"
        "    if i == 0 and j == len(text) and p.is_exact_match(text) != want:\n"
        "        REPRODUCED('(%s).is_exact_match(%%r) = %%r, specification %%r' %% (text, not want, want))\n"
        "    if glued and got: REPRODUCED('pattern matches %%r inside %%r although glued to a digit' %% (span, text))\n"
        "    if neutral and got != want: REPRODUCED('pattern %%s %%r inside %%r; specification %%r' %% ('matches' if got else 'does not match', span, text, want))\n"
        "else:\n"
        "    prev = text[i-1]\n"
        "    if prev in D and span[:1] not in ('+', '-') and got: REPRODUCED('extensible pattern matches %%r right after a digit in %%r' %% (span, text))\n"
        "    if variant == 'UnsignedDecimal' and prev in '+-' and got: REPRODUCED('UnsignedDecimal matches %%r right after a sign in %%r' %% (span, text))\n"
        "    sg = {'Decimal': '+-' if %r else '', 'PositiveDecimal': '+', 'NegativeDecimal': '-', 'UnsignedDecimal': ''}[variant]\n"
        "    defined = prev not in D and (j == len(text) or text[j] not in D) and (sg == '' or span[:1] in tuple(sg)) and not (variant == 'UnsignedDecimal' and prev in '+-')\n"
        "    if defined and got != want: REPRODUCED('extensible pattern %%s %%r inside %%r; specification %%r' %% ('matches' if got else 'does not match', span, text, want))\n"
        "NOT_REPRODUCED()\n"
    ) % (src, text, i, j, ext, variant, bool(inc), start, end, mn, mx, src, bool(inc))


def task_decimal(variant, inc, start, end, mn, mx, ext, L, Lspan):
    src = ctor_src(variant, inc, start, end, mn, mx, ext)
    name = "decimal %s N<=%d" % (src, L)
    t0 = time.time()
    try:
        pre = build(variant, inc, start, end, mn, mx, ext)
        pat = str(pre)
        P = R.parse(pat)
    except Exception as e:
        return {"name": name, "status": "violated", "detail": "constructor/pattern failed: %r" % (e,),
                "inputs": {"text": ""},
                "script": "try:\n    p = %s\n    re.compile(str(p), FLAGS)\nexcept Exception as e:\n    REPRODUCED(repr(e))\nNOT_REPRODUCED()\n" % src}
    solver_s, nq = 0.0, 0
    sg, _ = sign_rule(variant, inc, ext)
    for N in range(0, L + 1):
        prob = R.Problem([P], N, extra_sets=NS.extra_sets() + [SPACE], exclude=cs.unicode_only())
        num = NS.Num(prob)
        rel = R.Rel(prob, P)
        conds = {}
        for i in range(N + 1):
            for j in range(i, N + 1):
                whole = (i == 0 and j == N)
                if ext and i == 0:
                    continue            # start of text: not specified for the extensible forms
                if not ext and not whole and N > Lspan:
                    continue
                if ext and N > Lspan and not (i == 1 and j >= N - 1):
                    continue
                m = rel.M(P.root, i, j)
                sp = spec_numeral(num, variant, inc, ext, i, j, start, end, mn, mx) if j > i else False
                if not ext:
                    left_n = True if i == 0 else prob.inset(i - 1, SPACE)
                    right_n = True if j == N else prob.inset(j, SPACE)
                    glued = R.OR(num.digit(i - 1), num.digit(j))
                    conds[(i, j)] = R.OR(R.AND(left_n, right_n, R.NOT(R.IFF(m, sp))), R.AND(glued, m))
                else:
                    prevd = R.AND(num.digit(i - 1), R.NOT(num.sign(i)))     # digit right before the digits / dot
                    prevs = num.sign(i - 1) if variant == "UnsignedDecimal" else False
                    defined = R.AND(R.NOT(num.digit(i - 1)), R.NOT(prevs), R.NOT(num.digit(j)),
                                    True if sg is None else prob.inset(i, sg))
                    conds[(i, j)] = R.OR(R.AND(R.OR(prevd, prevs), m), R.AND(defined, R.NOT(R.IFF(m, sp))))
        viol = R.OR(*conds.values())
        if viol is False:
            continue
        sv = z3.Solver()
        for dd in prob.domain():
            sv.add(dd)
        sv.add(R.B(viol))
        t1 = time.time()
        r = sv.check()
        from vlib import e2util as _x
        if str(r) in ("sat", "unsat"):
            _x.cross_check(sv, str(r), 40)
            if _x.XCHECK["disagree"]:
                raise RuntimeError("solver disagreement: %r" % _x.XCHECK["disagree"][:2])
        solver_s += time.time() - t1
        nq += 1
        if str(r) == "sat":
            mdl = sv.model()
            text = prob.text_of(mdl)
            for (i, j), c in conds.items():
                if c is True or (c is not False and z3.is_true(mdl.eval(c, model_completion=True))):
                    return {"name": name, "status": "violated", "solver_s": solver_s,
                            "detail": "%s: span [%d:%d] of %r" % (src, i, j, text),
                            "inputs": {"variant": variant, "text": text, "i": i, "j": j, "ext": ext},
                            "script": _script(src, variant, inc, ext, start, end, mn, mx, text, i, j)}
            return {"name": name, "status": "error", "detail": "sat without span"}
        if str(r) != "unsat":
            return {"name": name, "status": "inconclusive", "detail": "solver %s at N=%d" % (r, N), "solver_s": solver_s}
    return {"name": name, "status": "discharged", "solver_s": solver_s,
            "sample": {"pattern": pat[:100], "queries": nq, "L": L, "wall_s": round(time.time() - t0, 2)}}


def task_spec_selfcheck(n):
    import random
    rnd = random.Random(common.SEED + 1)
    ns = {}
    exec(PY_SPEC, ns)
    pat = R.parse("x")
    bad, cnt = [], 0
    for _ in range(n):
        variant, inc = rnd.choice(VARIANTS)
        ext = rnd.random() < 0.3
        start = rnd.choice([0, 1, 5, 10])
        end = start + rnd.choice([0, 9, 90])
        mn = rnd.choice([1, 2])
        mx = rnd.choice([None, mn, mn + 2])
        N = rnd.randint(1, 6)
        text = "".join(rnd.choice("0015.+-. 9") for _ in range(N))
        prob = R.Problem([pat], N, extra_sets=NS.extra_sets() + [SPACE], exclude=cs.unicode_only())
        num = NS.Num(prob)
        sv = z3.Solver()
        sv.add(R.B(prob.text_is(text)))
        assert str(sv.check()) == "sat"
        c = spec_numeral(num, variant, inc, ext, 0, N, start, end, mn, mx)
        v = c if isinstance(c, bool) else z3.is_true(sv.model().eval(c, model_completion=True))
        w = ns["py_decimal"](text, variant, bool(inc), ext, start, end, mn, mx)
        cnt += 1
        if v != w:
            bad.append((variant, inc, ext, start, end, mn, mx, text, v, w))
    if bad:
        return {"name": "spec self-check", "status": "error", "detail": repr(bad[:3])}
    return {"name": "spec self-check: z3 specification == python specification on %d texts" % cnt,
            "status": "discharged", "sample": {"selfcheck_texts": cnt}}


def task_validation(kind):
    """documented exceptions for invalid bounds (concrete boundary inputs; symbolic version in C03)"""
    common.import_pregex()
    import pregex.meta.essentials as me
    import pregex.core.exceptions as ex
    bad = []
    cases = [((0, 5, 0, None), ex.InvalidArgumentValueException), ((0, 5, 2, 1), ex.InvalidArgumentValueException),
             ((0, 5, "1", None), ex.InvalidArgumentTypeException), ((0, 5, 1, "2"), ex.InvalidArgumentTypeException),
             ((0, 5, True, None), ex.InvalidArgumentTypeException), ((0, 5, 1, True), ex.InvalidArgumentTypeException),
             ((-1, 5, 1, None), ex.InvalidArgumentValueException), ((6, 5, 1, None), ex.InvalidArgumentValueException),
             (("0", 5, 1, None), ex.InvalidArgumentTypeException), ((0, "5", 1, None), ex.InvalidArgumentTypeException),
             ((0, 5, -1, None), ex.InvalidArgumentValueException),
             # min_decimal < 1 together with an explicit max_decimal, equal-comparing non-integers
             ((0, 5, 0, 3), ex.InvalidArgumentValueException), ((0, 5, 0, 0), ex.InvalidArgumentValueException),
             ((0, 5, 0, 1), ex.InvalidArgumentValueException), ((17, 120, -1, 2), ex.InvalidArgumentValueException),
             ((0, 5, 3, 2), ex.InvalidArgumentValueException), ((0, 5, 2.0, 2), ex.InvalidArgumentTypeException),
             ((0, 5, 2, 2.0), ex.InvalidArgumentTypeException), ((0, 5.0, 1, None), ex.InvalidArgumentTypeException),
             ((0.0, 5, 1, None), ex.InvalidArgumentTypeException), ((True, 5, 1, None), ex.InvalidArgumentTypeException),
             ((0, True, 1, None), ex.InvalidArgumentTypeException), ((0, 5, None, 2), ex.InvalidArgumentTypeException)]
    for variant, _ in VARIANTS:
        for args, exc in cases:
            try:
                getattr(me, variant)(*args)
                bad.append((variant, args, "no exception"))
            except exc:
                pass
            except Exception as e:
                bad.append((variant, args, repr(e)))
    if bad:
        v, a, what = bad[0]
        return {"name": "decimal argument validation", "status": "violated", "detail": repr(bad[:3]),
                "inputs": {"text": ""},
                "script": "try:\n    %s(*%r)\n    REPRODUCED('no exception')\nexcept (InvalidArgumentTypeException, InvalidArgumentValueException) as e:\n"
                          "    if type(e).__name__ != %r: REPRODUCED(repr(e))\nexcept Exception as e:\n    REPRODUCED(repr(e))\nNOT_REPRODUCED()\n"
                          % (v, a, [c for c in cases if c[0] == a][0][1].__name__)}
    return {"name": "decimal argument validation (%d cases)" % (len(cases) * len(VARIANTS)), "status": "discharged"}


def e1_cases(tier):
    """fraction-length bounds symbolic: InvalidArgumentValueException iff min_decimal < 1 or min_decimal > max_decimal; otherwise the
    emitted text parses and its last repeat is exactly {min_decimal, max_decimal} over a digit class"""
    from vlib.symx import engine
    hi = 3 if tier == "quick" else 5
    pre = "-2 <= mn and mn <= %d and (mx is None or (-2 <= mx and mx <= %d))" % (hi, hi)
    cs = []
    ctors = ["Decimal(0, 9, mn, mx)", "UnsignedDecimal(0, 9, mn, mx, True)"]
    if tier == "thorough":
        ctors += ["Decimal(3, 12, mn, mx)", "PositiveDecimal(0, 9, mn, mx)", "NegativeDecimal(1, 20, mn, mx, True)", "Decimal(0, 5, mn, mx, True, True)"]
    for call in ctors:
        body = "\n".join([
            "bad = mn < 1 or (mx is not None and mn > mx)",
            "try:", "    p = %s" % call,
            "except InvalidArgumentValueException:", "    return bad",
            "if bad:", "    return False",
            # the items after the last '.' (zero-width guards aside): one digit item repeated {mn, mx}; spelling of the digit class is free
            "t = [x for x in ptree(str(p)) if x[0] not in ('AT', 'ASSERT', 'ASSERT_NOT')]",
            "dots = [i for i in range(len(t)) if t[i] == ('LITERAL', 46)]",
            "if not dots:", "    return False",
            "tail = t[dots[-1] + 1:]",
            "if len(tail) == 1 and tail[0][0] in ('MAX_REPEAT', 'MIN_REPEAT'):",
            "    x = tail[0]",
            "    return x[1] == mn and x[2] == (sp.MAXREPEAT if mx is None else mx) and len(x[3]) == 1",
            "return mx is not None and mn == mx and len(tail) == mn and all(y[0] not in ('MAX_REPEAT', 'MIN_REPEAT') for y in tail)"])
        cs.append(engine.raw_case(body, [("mn", "int"), ("mx", "Opt[int]")], [pre],
                                  "%s: exception iff invalid fraction bounds, else fraction repeat == {mn, mx}, bounds in [-2, %d] / None" % (call, hi)))
    return cs


def run(tier):
    run = common.Run(PROP, tier)
    run.known.probe()
    common.import_pregex()
    import pregex.meta.essentials as me
    run.functions = common.src_fingerprint(common.resolve([(me.Decimal, "__init__"), (me.PositiveDecimal, "__init__"), (me.NegativeDecimal, "__init__"), (me.UnsignedDecimal, "__init__"), (me.Decimal.__mro__[1], "__init__"), (me.Numeral, "__init__"), (me.Integer.__mro__[1], "__init__")]))
    if tier == "quick":
        pairs = [(0, 9), (0, 12), (1, 9), (3, 10), (10, 10), (17, 120), (0, 2147483647)]
        decs = [(1, None), (1, 1), (2, 3)]
        Lcap, Lspan = 7, 5
    else:
        B = [0, 1, 9, 10, 11, 19, 99, 100, 101, 199, 999, 1000]
        pairs = [(a, b) for a in B for b in B if a <= b] + [(0, 2147483647), (1, 2147483647)]
        decs = [(1, None), (1, 1), (1, 3), (2, 2), (2, None), (3, 5)]
        Lcap, Lspan = 10, 6
    from vlib.symx import engine
    cases = e1_cases(tier)
    tasks = [("task_spec_selfcheck", (300,)), ("task_validation", ("bounds",))]
    for (s, e) in pairs:
        for (mn, mx) in decs:
            for variant, inc in VARIANTS:
                for ext in (False, True):
                    L = min(len(str(e)) + 1 + min(mx or mn + 1, 3) + 2 + (1 if ext else 0), Lcap)
                    tasks.append(("task_decimal", (variant, inc, s, e, mn, mx, ext, L, Lspan)))
    run.add(common.run_tasks(__name__, tasks, progress=200))
    outs = engine.run_cases(cases, per_condition_timeout=240 if tier == "quick" else 1200)
    run.add(engine.to_results(cases, outs))
    run.info = {"crosshair_harnesses": len(cases), "crosshair_paths_explored": sum(r.get("paths", 0) for r in run.results)}
    run.triage(REGIONS)
    run.bounds = {"E1": "%d harnesses with SYMBOLIC min_decimal, max_decimal in [-2, %d] / None: InvalidArgumentValueException iff min < 1 or min > max, "
                        "otherwise the items after the last '.' are one digit item repeated {min, max}" % (len(cases), 3 if tier == "quick" else 5),
                  "configs": "%d ranges x %d fraction bounds x 5 variants x 2 extensibility" % (len(pairs), len(decs)),
                  "text_length": "<= %d (all spans up to N=%d, whole text beyond)" % (Lcap, Lspan),
                  "characters": "all of Unicode minus Unicode-only \\d\\s\\w members"}
    run.assumptions = ["sign rules as documented (props/C16.py sign_rule); embedded spans asserted only with edge/space neighbours; "
                       "'glued to a digit' spans must not match",
                       "extensible forms: bare pattern, spans not at text start; for signed variants only spans beginning with a sign are asserted (whether the sign is optional there is not documented)"]
    return run.finish(explanation="Relational SMT encoding (vlib/rexsat.Rel) of each concrete Decimal pattern over a symbolic text; the "
                      "specification (sign, canonical integer part in range as a linear term over digit variables, dot, fraction length) "
                      "is a z3 formula over the same text; unsat for each length = discharged; sat models are replayed on the real code.")
