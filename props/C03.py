"""C03 - every call yields a compilable, exportable pattern or a documented exception."""
import itertools, random
from vlib import common, dsl, progs
from vlib.symx import engine
from props import progfam, C02, C01

PROP = "C03"
REGIONS = {}
L = lambda s: ("lit", s)
O = lambda s: ("obj", s)
T, V = "InvalidArgumentTypeException", "InvalidArgumentValueException"
NAME = "InvalidCapturingGroupNameException"


def e1_cases(tier):
    cs = []
    K = (1, 2, 3) if tier == "quick" else (1, 2, 3, 4)
    S = [("A0", "str")]
    for k in K:
        pre = ["len(A0) == %d" % k]
        # group names: the real parser stores names in a dict (hashing realises a symbolic name), so the post-condition is stated on
        # the emitted text: documented shape, and the name obeys re's own rule (str.isidentifier) - hence re.compile accepts it
        for call, shape in [("Capture('a', A0)", "'(?P<' + A0 + '>a)'"), ("Capture(Capture('a', 'x'), A0)", "'(?P<' + A0 + '>a)'"),
                            ("Pregex('a').capture(A0)", "'(?P<' + A0 + '>a)'")]:
            body = ("try:\n    p = %s\nexcept InvalidCapturingGroupNameException:\n    return True\n"
                    "return str(p) == %s and A0.isidentifier()") % (call, shape)
            cs.append(engine.raw_case(body, S, pre, "%s |name|=%d: refused or '(?P<name>..)' with an identifier name" % (call, k)))
        body = ("try:\n    p = Conditional(A0, 'b', 'c')\nexcept InvalidCapturingGroupNameException:\n    return True\n"
                "return str(p) == '(?(' + A0 + ')b|c)' and A0.isidentifier()")
        cs.append(engine.raw_case(body, S, pre, "Conditional(name, 'b', 'c') |name|=%d: refused or '(?(name)b|c)' with an identifier name" % k))
        cs.append(engine.exc_case("Backreference(A0)", S, pre, allowed=[NAME], must_parse=False, name="Backreference(str) |ref|=%d" % k))
        if k <= (1 if tier == "quick" else 2):
            cs.append(engine.exc_case("Pregex(A0)", S, pre, name="Pregex(s) |s|=%d" % k))
    cs.append(engine.exc_case("Backreference(n)", [("n", "int")], ["-3 <= n and n <= 120"], allowed=[V], must_parse=False, name="Backreference(int) n in [-3,120]"))
    one = ["len(A0) == 1"]
    two = [("A0", "str"), ("A1", "str")]
    both1 = ["len(A0) == 1 and len(A1) == 1"]
    for c in ("AnyFrom", "AnyButFrom"):
        cs.append(engine.exc_case("%s(A0)" % c, S, one, name="%s(c)" % c))
        cs.append(engine.exc_case("%s(A0, 'b')" % c, S, one, name="%s(c, 'b')" % c))
        # a symbolic member next to a parenthesis / a newline (the class text then crosses a line or unbalances the parentheses
        # seen by the scans of the type inference)
        cs.append(engine.exc_case("%s(A0, '(', 'x')" % c, S, one, name="%s(c, '(', 'x')" % c))
        if tier == "thorough" or c == "AnyFrom":
            cs.append(engine.exc_case("%s(chr(10), A0)" % c, S, one, name="%s(newline, c)" % c))
            cs.append(engine.exc_case("%s(A0, ')', chr(92))" % c, S, one, name="%s(c, ')', backslash)" % c))
        cs.append(engine.exc_case("%s(A0)" % c, S, ["len(A0) != 1 and len(A0) <= 2"], required=T, name="%s(s) with |s| != 1 refused" % c))
        if tier == "thorough":
            cs.append(engine.exc_case("%s(A0, A1)" % c, two, both1, name="%s(c, d)" % c))
    for c in ("AnyBetween", "AnyButBetween"):
        cs.append(engine.exc_case("%s(A0, 'm')" % c, S, one, allowed=["InvalidRangeException"], name="%s(c, 'm')" % c))
        cs.append(engine.exc_case("%s('m', A0)" % c, S, one, allowed=["InvalidRangeException"], name="%s('m', c)" % c))
        # one symbolic endpoint against every character that is escaped or has a meaning inside a class
        if tier == "thorough" or c == "AnyBetween":
            for sp in ("-", "\\", "]", "[", "^", "$", "/"):
                cs.append(engine.exc_case("%s(A0, %r)" % (c, sp), S, one, allowed=["InvalidRangeException"], name="%s(c, %r)" % (c, sp)))
                cs.append(engine.exc_case("%s(%r, A0)" % (c, sp), S, one, allowed=["InvalidRangeException"], name="%s(%r, c)" % (c, sp)))
        if tier == "thorough":
            cs.append(engine.exc_case("%s(A0, A1)" % c, two, both1, allowed=["InvalidRangeException"], name="%s(c, d)" % c))
    alg = ["AnyBetween('a', 'f') | A0", "A0 | AnyBetween('a', 'f')", "AnyLetter() - A0", "A0 - AnyFrom('a', 'b')", "~AnyFrom(A0)", "~AnyFrom(A0, 'x')",
           "AnyFrom(A0) | AnyFrom('[', 'x')", "AnyBetween('[', 'a') - A0", "~AnyButFrom(A0)", "AnyFrom(A0) - AnyFrom('a')"]
    alg2 = ["(AnyBetween('a', 'f') | A0) | AnyBetween('e', 'l')", "(AnyBetween('c', 'f') | AnyBetween('e', 'l')) | A0",
            "(AnyBetween('e', 'l') | A0) - AnyBetween('a', 'f')", "(AnyFrom('a', 'c') | A0) | AnyBetween('b', 'k')"]
    alg = alg[:6] + alg2 + alg[6:]
    for a in (alg if tier == "thorough" else alg[:10]):
        cs.append(engine.exc_case(a, S, one, allowed=["EmptyClassException"], name="class algebra %s" % a))
    # numeric parameters of the meta patterns
    cs.append(engine.exc_case("Word(n, m)", [("n", "int"), ("m", "Opt[int]")], ["-1 <= n and n <= 4 and (m is None or (-1 <= m and m <= 4))"], allowed=[V], name="Word(min, max) symbolic"))
    cs.append(engine.exc_case("Numeral(b, 1, 2)", [("b", "int")], ["-1 <= b and b <= 18"], allowed=[V], name="Numeral(base) symbolic base"))
    cs.append(engine.exc_case("Numeral(10, n, m)", [("n", "int"), ("m", "Opt[int]")], ["-1 <= n and n <= 4 and (m is None or (-1 <= m and m <= 4))"], allowed=[V], name="Numeral(10, n_min, n_max) symbolic"))
    # wrong kinds
    for call in ["Optional(x)", "Concat('a', x)", "Either(x, 'a')", "Capture(x)", "Group(x)", "FollowedBy('a', x)", "PrecededBy(x, 'a')", "Pregex(x)",
                 "Exactly('a', x)" if False else "MatchAtStart(x)", "Pregex('a').concat(x)", "Pregex('a') + x"]:
        cs.append(engine.exc_case(call, [("x", "int")], ["-2 <= x and x <= 2"], required=T if "+ x" not in call else T, name="%s with an int refused" % call))
    return cs


def totality_family(tier):
    d1, d2, d3, t3 = C02.family("quick")
    rnd = random.Random(common.SEED)
    ps = list(d1) + (rnd.sample(d2, 4000) if tier == "quick" else d2) + t3
    # invalid arguments in the documented ways
    a = L("a")
    bads = [5, 1.5, None, True, ["a"], b"a"]
    for b in bads:
        bo = O(repr(b))
        ps += [("concat", [a, bo]), ("either", [bo, a]), ("opt", bo, True), ("capture", bo, None), ("group", bo, False), ("fb", a, [bo]), ("pb", bo, [a]),
               ("enclose", a, [bo]), ("mas", bo), ("cond", "n", bo, None), ("cond", "n", a, bo) if b is not None else ("cond", "n", a, None)]
    for nm in ["1a", "", "a-b", "a\n", "a b", 5, None, "é", "a" * 40]:
        ps += [("capture", a, nm), ("cond", nm, a, None) if isinstance(nm, str) else ("capture", a, nm), ("bref", nm) if nm is not None else ("bref", 0)]
    ps += [("concat", []), ("either", []), ("fb", a, []), ("pb", a, []), ("nfb", a, []), ("bref", 0), ("bref", 100), ("bref", -1), ("bref", 99), ("bref", True)]
    return progs.dedupe(ps)


def export_family(tier):
    pool = C01.POOL + ["a'b\"c", "\\'\"", "tab\there", "\x07bell", "\x7f", "\u2028", "\u00a0", "a\\\\'b", "q\\\"", "'\\", "\r\n", "\x1b[0m"]
    ps = []
    for s in pool:
        ps += [("pre", s), ("opt", L(s), True), ("concat", [L(s), O("AnyLetter()")]), ("either", [L(s), L("x")]), ("capture", L(s), "n"), ("pb", L("x"), [L(s)])]
    for o in ["Newline()", "Tab()", "CarriageReturn()", "FormFeed()", "VerticalTab()", "Backslash()", "Bullet()", "Euro()", "Space()", "AnyWhitespace()",
              "AnyButWhitespace()", "AnyFrom('\\n', \"'\")", "AnyFrom('\"', \"'\", '\\\\')", "AnyBetween('\\x00', '\\x1f')", "AnyCJK()", "AnyGreekLetter()",
              "AnyFrom('\\u2028', 'a')", "Any()", "AnyPunctuation()"]:
        ps += [O(o), ("plus", O(o), True), ("concat", [O(o), L("'")])]
    return progs.dedupe(ps)


def task_total(e):
    bad_operand = any(x[0] == "obj" and not x[1].endswith(")") for x in _leaves(e))
    return progs.check_totality(e, spellings=("class",) if bad_operand else ("class", "method", "operator", "roperator"))


def _leaves(e):
    if e[0] in ("lit", "obj", "pre", "bref", "sym", "psym"):
        return [e]
    out = []
    for x in dsl.subexprs(e):
        out += _leaves(x)
    return out


def task_export(e, Lmax):
    return progs.check_export(e, Lmax)


def run(tier):
    run = common.Run(PROP, tier)
    run.known.probe()
    run.functions = progfam.functions_pre()
    tot = totality_family(tier)
    exp = export_family(tier)
    run.add(common.run_tasks(__name__, [("task_total", (e,)) for e in tot] + [("task_export", (e, 4)) for e in exp], progress=5000))
    cases = e1_cases(tier)
    outs = engine.run_cases(cases, per_condition_timeout=300 if tier == "quick" else 1800)
    run.add(engine.to_results(cases, outs))
    run.triage(REGIONS)
    run.info = {"crosshair_harnesses": len(cases), "crosshair_paths_explored": sum(r.get("paths", 0) for r in run.results)}
    run.bounds = {"E1": "%d harnesses with symbolic arguments: group names (|name| <= %d, every code point), Backreference int in [-3,120], class constructor characters, "
                  "class algebra with a symbolic character, numeric parameters of Word/Numeral, wrong-kind operands" % (len(cases), 3 if tier == "quick" else 4),
                  "totality": "%d DSL programs (the C02 family + invalid arguments in the documented ways): library exception or a pattern re accepts with a printable, compilable export" % len(tot),
                  "export": "%d patterns containing control characters, quotes, backslashes, non-ASCII: get_pattern() printable and equivalent to str(p) on all texts up to 4 (exact SMT encoding)" % len(exp)}
    run.assumptions = ["documented exceptions = the classes of pregex.core.exceptions; a Backreference/Conditional to a group the expression does not define is excepted from the compile requirement",
                       "hash-seed dependence of class text is decided by C06/C07 (real seeds enumerated)"]
    return run.finish(explanation="E1: CrossHair/z3 explores all paths of the real constructors for symbolic names, characters and numbers; post-condition: a library exception "
                      "of the allowed class or a text the real re parser accepts (look-behind width rule included). Totality over enumerated DSL programs; export "
                      "equivalence by the exact SMT encoding of finditer over a symbolic text.")
