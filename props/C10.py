"""C10 - look-behind assertions are accepted iff their pattern has one fixed width."""
from vlib import common, dsl, progs
from vlib.symx import engine
from props import progfam

PROP = "C10"
REGIONS = {}
L = lambda s: ("lit", s)
O = lambda s: ("obj", s)
NF = "NonFixedWidthPatternException"


def assertion_patterns():
    a, b, ab, cd = L("a"), L("b"), L("ab"), L("cd")
    fixed = [a, ab, L("a?"), L("a*b"), L("+"), L("{2}"), L("a{2,3}"), L("(a?)"), L("a|bc"), L("?"), L("*"), L("{,3}"), L("a{1,}"),
             O("AnyFrom('?', '*')"), O("AnyFrom('+', '-')"), O("AnyFrom('{', '}')"), O("AnyFrom('?')"), O("AnyButFrom('+', '*')"),
             O("AnyLetter()"), O("AnyDigit()"), O("Any()"), O("AnyBetween('*', '?')"),
             ("exactly", a, 3), ("exactly", ab, 2), ("between", a, 2, 2, True), ("between", ab, 1, 1, True), ("exactly", O("AnyFrom('+', '?')"), 2),
             ("either", [a, b]), ("either", [ab, cd]), ("either", [ab, ("exactly", a, 2)]), ("either", [a, L("?")]),
             ("group", ab, False), ("group", ab, True), ("capture", a, None), ("capture", ("either", [ab, cd]), "n"),
             ("concat", [a, O("AnyLetter()")]), ("concat", [L("a+"), ("exactly", b, 2)]),
             ("fb", a, [b]), ("nfb", a, [L("bc")]), ("pb", a, [b]), ("npb", ab, [L("c")]), ("fb", a, [("plus", b, True)]),
             ("concat", [O("WordBoundary()"), a]), ("mas", a), ("male", ab), ("either", [("fb", a, [b]), L("c")]),
             ("opt", ("fb", L(""), [a]), True), ("exactly", ("either", [a, b]), 2), ("enclose", a, [b]),
             ("concat", [L("["), ("exactly", O("AnyDigit()"), 2), L("]")]), ("concat", [L("[?"), a, L("]*")]), ("either", [O("AnyFrom('c', '\\\\')"), O("AnyFrom('0', '5')")]),
             ("concat", [("either", [O("AnyFrom('c', '\\\\')"), O("AnyFrom('0', '5')")]), L("z")]), ("either", [O("AnyFrom('\\\\', ')')"), L("x")])]
    varw = [("opt", a, True), ("opt", ab, False), ("star", a, True), ("plus", ab, True), ("atleast", a, 2, True), ("atmost", a, 2, True),
            ("between", a, 1, 2, True), ("between", a, 0, 1, False), ("either", [a, ab]), ("either", [ab, L("c")]), ("either", [a, b, L("cd")]),
            ("concat", [a, ("opt", b, True)]), ("exactly", ("opt", a, True), 2), ("group", ("plus", a, True), False),
            ("capture", ("either", [a, ab]), None), ("either", [ab, ("opt", cd, True)]), ("concat", [("star", O("AnyDigit()"), True), a]),
            ("opt", O("AnyFrom('+', '-')"), True), ("plus", L("?"), True), ("either", [L("a?"), a]), ("fb", ("opt", a, True), [b]),
            ("concat", [("either", [a, ab]), b]), ("enclose", ("opt", a, True), [b]), ("atmost", ("exactly", a, 2), 3, True),
            ("concat", [L("["), ("plus", O("AnyDigit()"), True), L("]")]), ("concat", [L("[a"), ("star", b, True), L("]")]), ("concat", [L("("), ("opt", a, True), L(")")]),
            ("concat", [L("[^"), ("between", a, 1, 2, True), L("]x")]), ("concat", [L("\\["), ("either", [a, ab]), L("]")]), ("concat", [L("{"), ("plus", a, True), L("}")]),
            ("concat", [O("AnyFrom('[', 'x')"), ("opt", a, True), L("]")])]
    return fixed, varw


def family(tier):
    fixed, varw = assertion_patterns()
    matches = [L("x"), ("either", [L("x"), L("yz")]), L(""), ("opt", L("x"), True)]
    ps = []
    for A in fixed + varw + [L(""), ("pre", "")]:
        for m in matches:
            for k in ("pb", "eb", "npb", "neb"):
                ps.append((k, m, [A]))
                if tier == "thorough" or m[0] == "lit":
                    ps.append((k, m, [L("w"), A]))
    return progs.dedupe(ps)


def task_prog(e, Lmax, outcomes=None):
    return progs.check_program(e, Lmax, spellings=("class", "method"), mode="C10", outcomes=outcomes)


def e1_cases(tier):
    cs = []
    ks = [("PrecededBy", "preceded_by"), ("NotPrecededBy", "not_preceded_by"), ("EnclosedBy", "enclosed_by"), ("NotEnclosedBy", "not_enclosed_by")]
    P1 = [("A0", "str")]
    for cls, meth in ks:
        for K in ((1,) if tier == "quick" else (1, 2)):
            pre = ["len(A0) == %d" % K]
            cs.append(engine.exc_case("%s('x', A0)" % cls, P1, pre, forbidden=[NF], name="%s('x', A0) |%d| accepted" % (cls, K)))
            cs.append(engine.exc_case("%s('x', Exactly(A0, 2))" % cls, P1, pre, forbidden=[NF], name="%s('x', Exactly(A0,2)) |%d| accepted" % (cls, K)))
            cs.append(engine.exc_case("%s('x', Optional(A0))" % cls, P1, pre, required=NF, name="%s('x', Optional(A0)) |%d| refused" % (cls, K)))
            cs.append(engine.exc_case("%s('x', Pregex(A0) + Indefinite('b'))" % cls, P1, pre, required=NF, name="%s('x', A0 + Indefinite('b')) |%d| refused" % (cls, K)))
            cs.append(engine.exc_case("%s('x', Either(A0, 'ab'))" % cls, P1, pre, required=NF if K != 2 else None, forbidden=[NF] if K == 2 else [],
                                      name="%s('x', Either(A0,'ab')) |%d| %s" % (cls, K, "accepted" if K == 2 else "refused")))
        pre1 = ["len(A0) == 1"]
        cs.append(engine.exc_case("%s('x', Pregex(A0) + OneOrMore('b') + Pregex(A1))" % cls, [("A0", "str"), ("A1", "str")], ["len(A0) == 1 and len(A1) == 1"],
                                  required=NF, name="%s('x', A0 + OneOrMore('b') + A1) refused whatever characters surround the variable part" % cls))
        # the verdict concerns the assertion pattern alone: a match pattern that cannot be compiled by itself (a back-reference to a
        # group defined elsewhere) must not change it
        cs.append(engine.exc_case("%s(Backreference('q'), Optional(A0))" % cls, P1, pre1, required=NF, must_parse=False,
                                  name="%s(Backreference('q'), Optional(A0)) refused although the match pattern is a back-reference" % cls))
        cs.append(engine.exc_case("%s('x', AnyFrom(A0))" % cls, P1, pre1, forbidden=[NF], name="%s('x', AnyFrom(A0)) accepted" % cls))
        cs.append(engine.exc_case("Pregex('x').%s(AnyFrom(A0, 'b'))" % meth, P1, pre1, forbidden=[NF], name="x.%s(AnyFrom(A0,'b')) accepted" % meth))
        cs.append(engine.exc_case("%s('x', OneOrMore(AnyFrom(A0)))" % cls, P1, pre1, required=NF, name="%s('x', OneOrMore(AnyFrom(A0))) refused" % cls))
        if tier == "thorough":
            cs.append(engine.exc_case("%s('x', AnyFrom(A0, A1))" % cls, [("A0", "str"), ("A1", "str")], ["len(A0) == 1 and len(A1) == 1"], forbidden=[NF],
                                      name="%s('x', AnyFrom(A0,A1)) accepted" % cls))
        # symbolic repetition bounds (quick tier: one constructor, bounds up to 4)
        if tier == "quick" and cls != "PrecededBy":
            continue
        body = ("raised = False\ntry:\n    %s('x', AtLeastAtMost('ab', n, m, g))\nexcept NonFixedWidthPatternException:\n    raised = True\n"
                "return raised == (n != m)") % cls
        cs.append(engine.raw_case(body, [("n", "int"), ("m", "int"), ("g", "bool")], ["0 <= n and n <= m and 1 <= m and m <= %d" % (4 if tier == "quick" else 12)],
                                  "%s('x', AtLeastAtMost('ab', n, m, g)) refused iff n != m (symbolic n, m)" % cls))
    return cs


def run(tier):
    run = common.Run(PROP, tier)
    run.known.probe()
    run.functions = progfam.functions_pre()
    common.import_pregex()
    import pregex.core.pre as pre
    run.functions += common.src_fingerprint(common.resolve([(pre.Pregex, "_Pregex__is_fixed_width")])) if hasattr(pre.Pregex, "_Pregex__is_fixed_width") else []
    ps = family(tier)
    so = progs.with_seed_outcomes(ps, list(range(6)) if tier == "quick" else list(range(16)))
    run.add(common.run_tasks(__name__, [("task_prog", (e, 4, so.get(i))) for i, e in enumerate(ps)], progress=2000))
    cases = e1_cases(tier)
    outs = engine.run_cases(cases, per_condition_timeout=240 if tier == "quick" else 1200)
    run.add(engine.to_results(cases, outs))
    run.triage(REGIONS)
    fixed, varw = assertion_patterns()
    run.info = {"crosshair_harnesses": len(cases), "crosshair_paths_explored": sum(r.get("paths", 0) for r in run.results)}
    run.bounds = {"programs": "%d: %d fixed-width and %d variable-width assertion shapes (literals and classes containing ? * + { }, exact/variable quantifiers, "
                  "equal/unequal alternations, groups, nested look-arounds) x 4 match patterns x the 4 look-behind constructors, class and method spelling" % (len(ps), len(fixed), len(varw)),
                  "E1": "%d harnesses with symbolic characters inside the assertion literal / class (|s| <= %d, every code point) and symbolic repetition bounds (0..%d)" %
                  (len(cases), 1 if tier == "quick" else 2, 4 if tier == "quick" else 12)}
    run.assumptions = ["structural width of the assertion pattern computed from the DSL expression (vlib/dsl.py: literal = length, class/token = 1, exact repetition n*w, "
                       "variable repetition of non-zero width = not fixed, alternation = hull, groups transparent, zero-width assertions 0)",
                       "an accepted construction must also be accepted by re.compile (which re-checks the width)"]
    return run.finish(explanation=progfam.EXPLANATION + " E1: CrossHair explores all paths of the real constructors for symbolic characters / bounds.")
