"""C19 - Date patterns match exactly the selected numeric formats.

Each concrete pattern built by the real code is compared, over a symbolic text, with a reference
regex written from the documented table; the language of a Date pattern is finite (<= 10 characters),
so the bounded relational check up to 11 characters decides fullmatch for ALL texts.
"""
import itertools, random, time, z3
from vlib import rexsat as R, charset as cs, common, e2util
from vlib.charset import ISet

PROP = "C19"
REGIONS = {}
PART = {"d": "[1-9]", "dd": "(?:0[1-9]|[12][0-9]|3[01])", "m": "[1-9]", "mm": "(?:0[1-9]|1[0-2])",
        "yy": "[0-9]{2}", "yyyy": "[0-9]{4}"}


def documented_formats():
    out = []
    for sep in "/-":
        for D in ("d", "dd"):
            for M in ("m", "mm"):
                for Y in ("yy", "yyyy"):
                    out += [sep.join(x) for x in ((D, M, Y), (M, D, Y), (Y, M, D))]
    return sorted(set(out))


def ref_of(fmt):
    sep = "/" if "/" in fmt else "-"
    return ("\\" + sep if sep == "/" else sep).join(PART[x] for x in fmt.split(sep))


def ref_of_list(fmts):
    return "|".join("(?:%s)" % ref_of(f) for f in fmts)


def task_date(fmts, ext, label):
    fl = documented_formats() if fmts is None else list(fmts)
    src = "Date(%r, is_extensible=%r)" % (fmts if fmts is None or len(fmts) > 1 else fmts[0], ext)
    common.note_construction(src)
    name = "date %s %s" % (label, src if len(src) < 90 else src[:90] + "...")
    t0 = time.time()
    try:
        common.import_pregex()
        import pregex.meta.essentials as me
        arg = fmts if fmts is None or len(fmts) > 1 else fmts[0]
        pat = str(me.Date(arg, is_extensible=ext))
        P = R.parse(pat)
    except Exception as e:
        return e2util.bad_pattern_result(name, src, e)
    ref = ref_of_list(fl)
    Q = R.parse(ref)
    wmax = max(P.root.wmax or 0, Q.root.wmax)
    if P.root.wmax is None:
        L, exhaustive = 12, False
    else:
        L, exhaustive = wmax + 2, True
    Lspan = 8 if len(fl) > 4 else L
    solver_s, nq = 0.0, 0
    W = cs.A_WORD
    for N in range(0, L + 1):
        prob = R.Problem([P, Q], N, extra_sets=[W], exclude=cs.unicode_only())
        rp, rq = R.Rel(prob, P), R.Rel(prob, Q)
        conds = {}
        for i in range(N + 1):
            for j in range(i, N + 1):
                if N > Lspan and not (i <= 1 and j >= N - 1):
                    continue
                m, q = rp.M(P.root, i, j), rq.M(Q.root, i, j)
                if ext:
                    conds[(i, j)] = R.NOT(R.IFF(m, q))
                else:
                    glued = R.OR(prob.inset(i - 1, W), prob.inset(j, W))
                    conds[(i, j)] = R.OR(R.AND(glued, m, j > i), R.AND(R.NOT(glued), R.NOT(R.IFF(m, q))))
        r, text, key, dt = e2util.solve_conds(prob, conds)
        solver_s += dt
        nq += 1
        if r == "sat":
            i, j = key
            return {"name": name, "status": "violated", "solver_s": solver_s,
                    "detail": "%s: span [%d:%d] of %r" % (src, i, j, text),
                    "inputs": {"formats": fmts, "ext": ext, "text": text, "i": i, "j": j},
                    "script": e2util.SPAN_SCRIPT % dict(src=src, ref=ref, text=text, i=i, j=j, mode="any" if ext else "delim")}
        if r != "unsat":
            return {"name": name, "status": "inconclusive", "detail": "solver %s at N=%d" % (r, N), "solver_s": solver_s}
    return {"name": name, "status": "discharged", "solver_s": solver_s,
            "sample": {"pattern": pat[:90], "reference": ref[:90], "L": L, "queries": nq,
                       "fullmatch_exhaustive_for_all_lengths": exhaustive, "wall_s": round(time.time() - t0, 2)}}


def candidate_formats():
    toks = ["d", "dd", "m", "mm", "yy", "yyyy", "ddd", "mmm", "y", "yyy", "D", "DD", "MM", "YYYY", "YY", "M", ""]
    out = set()
    for sep1 in "/-.":
        for sep2 in "/-.":
            for a, b, c in itertools.product(toks, repeat=3):
                out.add(a + sep1 + b + sep2 + c)
    for f in documented_formats():
        out.update([f.upper(), f.title(), f + " ", " " + f, f + "\n", f.replace("/", "//"), f[:-1], f + f[-1]])
    out.update(["", "dd/mm", "dd/mm/yyyy/dd", "ddmmyyyy", "dd mm yyyy"])
    return sorted(out)


def task_formats(chunk, nchunks):
    """the set of accepted format strings == the documented 48; everything else raises
    InvalidArgumentValueException (candidate pool enumerated: all 3-token / 2-separator combinations over
    17 tokens x 3 separators plus case/whitespace variants)"""
    common.import_pregex()
    import pregex.meta.essentials as me
    import pregex.core.exceptions as ex
    doc = set(documented_formats())
    bad = []
    n = 0
    for idx, f in enumerate(candidate_formats()):
        if idx % nchunks != chunk:
            continue
        n += 1
        wraps = (lambda x: x, lambda x: [x], lambda x: ["dd/mm/yyyy", x]) if (f in doc or idx % 50 == 0) else (lambda x: x,)
        for wrap in wraps:
            try:
                me.Date(wrap(f))
                ok = True
            except ex.InvalidArgumentValueException:
                ok = False
            except Exception as e:
                bad.append((f, repr(e)))
                break
            if ok != (f in doc):
                bad.append((f, "accepted" if ok else "rejected"))
                break
    if bad:
        f, what = bad[0]
        return {"name": "date format validation", "status": "violated", "detail": repr(bad[:4]),
                "inputs": {"format": f, "text": ""},
                "script": "f = %r\ndoc = %r\ntry:\n    Date(f); ok = True\nexcept InvalidArgumentValueException:\n    ok = False\n"
                          "except Exception as e:\n    REPRODUCED('Date(%%r) raised %%r' %% (f, e))\n"
                          "if ok != (f in doc): REPRODUCED('Date(%%r) %%s but documented formats say %%s' %% (f, 'accepted' if ok else 'rejected', f in doc))\n"
                          "NOT_REPRODUCED()\n" % (f, sorted(doc))}
    return {"name": "date format validation chunk %d/%d: accepted format strings == documented 48 (%d candidates, enumerated)" % (chunk, nchunks, n),
            "status": "discharged", "sample": {"format_candidates": n}}


def run(tier):
    run = common.Run(PROP, tier)
    run.known.probe()
    common.import_pregex()
    import pregex.meta.essentials as me
    run.functions = common.src_fingerprint(common.resolve([(me.Date, "__init__"), (me.Date, "_Date__date_pre"), (me.Date, "_Date__date_formats")]))
    docf = documented_formats()
    rnd = random.Random(common.SEED)
    tasks = [("task_formats", (k, 16)) for k in range(16)]
    singles = docf if tier == "thorough" else docf   # all 48 formats in both tiers (each < 1 s)
    for f in singles:
        for ext in (False, True):
            tasks.append(("task_date", ((f,), ext, "single")))
    for ext in (False, True):
        tasks.append(("task_date", (None, ext, "all")))
    nsub = 40 if tier == "quick" else 300
    for k in range(nsub):
        sub = tuple(rnd.sample(docf, rnd.randint(2, 6)))
        tasks.append(("task_date", (sub, bool(k % 2), "subset")))
    if tier == "thorough":      # every ordered pair of formats (order matters for Either's first-alternative rule)
        for k, (a, b) in enumerate(itertools.permutations(docf, 2)):
            tasks.append(("task_date", ((a, b), bool(k % 2), "pair")))
    run.add(common.run_tasks(__name__, tasks))
    run.triage(REGIONS)
    run.bounds = {"formats": "each of the 48 documented formats alone, formats=None, %d random subsets of 2-6 formats (seed %d)%s, both is_extensible" % (nsub, common.SEED, ", all 2256 ordered pairs" if tier == "thorough" else ""),
                  "text_length": "<= max pattern width + 2 (languages are finite: fullmatch verdict is complete for every length); embedded spans all (i,j) up to N=8 for multi-format patterns",
                  "characters": "all of Unicode minus Unicode-only \\d\\s\\w members"}
    run.assumptions = ["reference per format from the documented table d=1-9, dd=01-31, m=1-9, mm=01-12, yy, yyyy (props/C19.py PART)",
                       "non-extensible: spans glued to a word character must not match; others must agree with the reference",
                       "remaining 2^48 format subsets not enumerated (union semantics of Either is C02's obligation)",
                       "format-string validation is decided over an enumerated candidate pool, not symbolically"]
    return run.finish(explanation="Relational SMT encoding of each real Date pattern vs a reference regex over a symbolic text; "
                      "unsat for every length up to pattern width + 2 decides the (finite) language completely.")
