"""C15 - Integer patterns match exactly the canonical numerals inside the range.

Real code builds each concrete pattern; the text is symbolic (E2 exact/relational encodings).
"""
import time, z3
from vlib import rexsat as R, charset as cs, common
from vlib.charset import ISet
from props import numspec as NS

PROP = "C15"
VARIANTS = [("Integer", False), ("Integer", True), ("PositiveInteger", None),
            ("NegativeInteger", None), ("UnsignedInteger", None)]
BOUNDARY = [0, 1, 9, 10, 11, 19, 20, 99, 100, 101, 109, 110, 199, 200, 999, 1000, 1001, 9999, 10000,
            99999, 2147483647]


def ctor_src(variant, include_sign, start, end, ext):
    args = "%d, %d" % (start, end)
    if variant == "Integer":
        args += ", include_sign=%r" % bool(include_sign)
    args += ", is_extensible=%r" % ext
    return "%s(%s)" % (variant, args)


def build(variant, include_sign, start, end, ext):
    common.note_construction(ctor_src(variant, include_sign, start, end, ext))
    common.import_pregex()
    import pregex.meta.essentials as me
    cls = getattr(me, variant)
    if variant == "Integer":
        return cls(start, end, include_sign=bool(include_sign), is_extensible=ext)
    return cls(start, end, is_extensible=ext)


REGIONS = {}


def _script_embedded(variant, include_sign, start, end, text):
    return (
        "import re as _re\n"
        + _PY_SPEC_SRC +
        "p = %s\ntext = %r\n"
        "got = [(s, e) for _, s, e in p.get_matches_and_pos(text)]\n"
        "want = py_integer_expected(%r, %r, text, %d, %d)\n"
        "if got != want: REPRODUCED('%s.get_matches_and_pos(%%r) spans %%r, specification %%r' %% (text, got, want))\n"
        "NOT_REPRODUCED()\n"
    ) % (ctor_src(variant, include_sign, start, end, False), text, variant, bool(include_sign), start, end,
         ctor_src(variant, include_sign, start, end, False))


import inspect as _inspect
_PY_SPEC_SRC = _inspect.getsource(NS.py_integer_expected) + "\n"


def task_embedded(variant, include_sign, start, end, L, kf1):
    """finditer of the non-extensible pattern == documented matches, every text with len <= L over
    digits, '+', '-', non-word characters (no letters/underscore)."""
    name = "embedded %s N<=%d" % (ctor_src(variant, include_sign, start, end, False), L)
    t0 = time.time()
    try:
        pre = build(variant, include_sign, start, end, False)
        pat = str(pre)
        P = R.parse(pat)
    except Exception as e:
        return {"name": name, "status": "violated", "detail": "constructor/pattern failed: %r" % (e,),
                "inputs": {"text": ""},
                "script": "try:\n    p = %s\n    re.compile(str(p), FLAGS)\nexcept Exception as e:\n    REPRODUCED(repr(e))\nNOT_REPRODUCED()\n"
                          % ctor_src(variant, include_sign, start, end, False)}
    solver_s = 0.0
    nq = 0
    excl = cs.unicode_only() | NS.WORD_NONDIGIT
    for N in range(0, L + 1):
        prob = R.Problem([P], N, extra_sets=NS.extra_sets(), exclude=excl)
        num = NS.Num(prob)
        ex = R.Exact(prob, P)
        canon = ex.finditer()
        bad = []
        for s in range(N + 1):
            d = canon[s]
            sm = [(e, NS.integer_spec_match(num, variant, include_sign, s, e, start, end)) for e in range(s + 1, N + 1)]
            spec_ne = R.OR(*[c for _, c in sm])
            bad.append(d["emp"])
            bad.append(R.NOT(R.IFF(d["ne"], spec_ne)))
            for e, c in sm:
                bad.append(R.AND(d["ne"], c, R.NOT(R.EQ(d["ne_end"], e))))
        viol = R.OR(*bad)
        if viol is False:
            continue
        sv = z3.Solver()
        for dd in prob.domain():
            sv.add(dd)
        sv.add(R.B(viol))
        t1 = time.time()
        r = sv.check()
        from vlib import e2util as _x
        if str(r) in ("sat", "unsat"):
            _x.cross_check(sv, str(r), 60)
            if _x.XCHECK["disagree"]:
                raise RuntimeError("solver disagreement: %r" % _x.XCHECK["disagree"][:2])
        solver_s += time.time() - t1
        nq += 1
        if str(r) == "sat":
            text = prob.text_of(sv.model())
            return {"name": name, "status": "violated", "solver_s": solver_s,
                    "detail": "%s on text %r" % (ctor_src(variant, include_sign, start, end, False), text),
                    "inputs": {"variant": variant, "include_sign": include_sign, "start": start, "end": end,
                               "text": text, "ext": False},
                    "script": _script_embedded(variant, include_sign, start, end, text)}
        if str(r) != "unsat":
            return {"name": name, "status": "inconclusive", "detail": "solver %s at N=%d" % (r, N), "solver_s": solver_s}
    return {"name": name, "status": "discharged", "solver_s": solver_s,
            "sample": {"pattern": pat[:100], "queries": nq, "L": L, "build+solve_s": round(time.time() - t0, 2)}}


def _ext_prefix_and_sign(variant, include_sign):
    """documented shape of prefix + extensible numeral: (sign set required after the prefix or None,
    prefix may be a sign?)"""
    if variant == "Integer" and not include_sign:
        return None
    if variant == "Integer" and include_sign:
        return NS.SIGNS
    if variant == "PositiveInteger":
        return NS.PLUS
    if variant == "NegativeInteger":
        return NS.MINUS
    return None


def task_extensible(variant, include_sign, start, end, L):
    """AnyButDigit() + X(start, end, is_extensible=True): fullmatch(text) <=> text = x [sign] digits with
    x a non-digit, the sign the variant documents, digits canonical and in range."""
    src = "AnyButDigit() + " + ctor_src(variant, include_sign, start, end, True)
    name = "extensible %s N<=%d" % (src, L)
    try:
        common.import_pregex()
        import pregex.core.classes as cl
        pre = cl.AnyButDigit() + build(variant, include_sign, start, end, True)
        pat = str(pre)
        P = R.parse(pat)
    except Exception as e:
        return {"name": name, "status": "violated", "detail": "constructor/pattern failed: %r" % (e,),
                "inputs": {"text": "", "ext": True},
                "script": "try:\n    p = %s\n    re.compile(str(p), FLAGS)\nexcept Exception as e:\n    REPRODUCED(repr(e))\nNOT_REPRODUCED()\n" % src}
    sg = _ext_prefix_and_sign(variant, include_sign)
    solver_s = 0.0
    nq = 0
    for N in range(0, L + 1):
        prob = R.Problem([P], N, extra_sets=NS.extra_sets(), exclude=cs.unicode_only())
        num = NS.Num(prob)
        rel = R.Rel(prob, P)
        full = rel.full()
        k = 1 if sg is None else 2
        if N < k + 1:
            spec = False
        else:
            spec = R.AND(R.NOT(num.digit(0)), num.alldig(k, N), num.canonical_in_range(k, N, start, end))
            if sg is not None:
                spec = R.AND(spec, prob.inset(1, sg))
            if variant == "UnsignedInteger":
                spec = R.AND(spec, R.NOT(num.sign(0)))
        viol = R.NOT(R.IFF(full, spec))
        if viol is False:
            continue
        sv = z3.Solver()
        for dd in prob.domain():
            sv.add(dd)
        sv.add(R.B(viol))
        t1 = time.time()
        r = sv.check()
        from vlib import e2util as _x
        if str(r) in ("sat", "unsat"):
            _x.cross_check(sv, str(r), 60)
            if _x.XCHECK["disagree"]:
                raise RuntimeError("solver disagreement: %r" % _x.XCHECK["disagree"][:2])
        solver_s += time.time() - t1
        nq += 1
        if str(r) == "sat":
            text = prob.text_of(sv.model())
            script = (
                "p = %s\ntext = %r\n"
                "k = %d\nsg = %r\n"
                "digits = text[k:]\n"
                "want = len(text) > k and not text[0].isdigit() and digits.isascii() and digits.isdigit() and (len(digits) == 1 or digits[0] != '0') and %d <= int(digits) <= %d\n"
                "if sg: want = want and text[1] in sg\n"
                "if %r: want = want and text[0] not in '+-'\n"
                "got = p.is_exact_match(text)\n"
                "if got != want: REPRODUCED('(%s).is_exact_match(%%r) = %%r, specification %%r' %% (text, got, want))\n"
                "NOT_REPRODUCED()\n"
            ) % (src, text, k, {None: "", NS.SIGNS: "+-", NS.PLUS: "+", NS.MINUS: "-"}[sg], start, end,
                 variant == "UnsignedInteger", src)
            return {"name": name, "status": "violated", "solver_s": solver_s, "detail": "%s on %r" % (src, text),
                    "inputs": {"variant": variant, "include_sign": include_sign, "start": start, "end": end,
                               "text": text, "ext": True},
                    "script": script}
        if str(r) != "unsat":
            return {"name": name, "status": "inconclusive", "detail": "solver %s at N=%d" % (r, N), "solver_s": solver_s}
    return {"name": name, "status": "discharged", "solver_s": solver_s,
            "sample": {"pattern": pat[:100], "queries": nq, "L": L}}


def task_spec_selfcheck(nsamples):
    """the z3 specification and its plain-Python twin (used in replays) must agree: compared on solver
    models and on fixed texts (validation of the harness, not of pregex)."""
    import random
    rnd = random.Random(common.SEED)
    bad = []
    n = 0
    pat = R.parse("x")
    for _ in range(nsamples):
        variant, inc = rnd.choice(VARIANTS)
        start = rnd.choice([0, 1, 5, 10, 17, 99, 100])
        end = start + rnd.choice([0, 1, 9, 10, 90, 2345])
        N = rnd.randint(1, 7)
        text = "".join(rnd.choice("0012345 +-.99") for _ in range(N))
        prob = R.Problem([pat], N, extra_sets=NS.extra_sets(), exclude=cs.unicode_only() | NS.WORD_NONDIGIT)
        num = NS.Num(prob)
        sv = z3.Solver()
        sv.add(R.B(prob.text_is(text)))
        assert str(sv.check()) == "sat"
        m = sv.model()
        got = []
        for s in range(N + 1):
            for e in range(s + 1, N + 1):
                c = NS.integer_spec_match(num, variant, inc, s, e, start, end)
                v = c if isinstance(c, bool) else z3.is_true(m.eval(c, model_completion=True))
                if v:
                    got.append((s, e))
        want = NS.py_integer_expected(variant, bool(inc), text, start, end)
        n += 1
        if got != want:
            bad.append((variant, inc, start, end, text, got, want))
    if bad:
        return {"name": "spec self-check", "status": "error", "detail": repr(bad[:3])}
    return {"name": "spec self-check: z3 specification == python specification on %d texts" % n,
            "status": "discharged", "sample": {"selfcheck_texts": n}}


def task_validation(kind):
    """documented exceptions for invalid start / end (concrete boundary inputs)"""
    common.import_pregex()
    import pregex.meta.essentials as me
    import pregex.core.exceptions as ex
    T, V = ex.InvalidArgumentTypeException, ex.InvalidArgumentValueException
    cases = [((-1, 5), V), ((6, 5), V), ((1000, 999), V), (("0", 5), T), ((0, "5"), T), ((True, 5), T), ((0, True), T), ((False, 12), T),
             ((0.0, 5), T), ((0, 5.0), T), ((None, 5), T), ((0, None), T), (([0], 5), T)]
    bad = []
    for variant, _ in VARIANTS:
        for args, exc in cases:
            try:
                getattr(me, variant)(*args)
                bad.append((variant, args, exc.__name__, "no exception"))
            except exc:
                pass
            except Exception as e:
                bad.append((variant, args, exc.__name__, repr(e)))
    if bad:
        v, a, en, what = bad[0]
        return {"name": "integer argument validation", "status": "violated", "detail": repr(bad[:3]), "inputs": {"text": ""},
                "script": "try:\n    %s(*%r)\n    REPRODUCED('no exception')\nexcept (InvalidArgumentTypeException, InvalidArgumentValueException) as e:\n"
                          "    if type(e).__name__ != %r: REPRODUCED(repr(e))\nexcept Exception as e:\n    REPRODUCED(repr(e))\nNOT_REPRODUCED()\n" % (v, a, en)}
    return {"name": "integer argument validation (%d cases)" % (len(cases) * len(VARIANTS)), "status": "discharged"}


def configs(tier):
    fam = set()
    if tier == "quick":
        for e in range(0, 31):
            for s in range(0, e + 1):
                if (s, e) in ((0, e), (e, e)) or (s + e) % 5 == common.SEED % 5:
                    fam.add((s, e))
        B = [0, 1, 9, 10, 11, 19, 99, 100, 101, 199, 999, 1000, 2147483647]
    else:
        for e in range(0, 200):
            for s in range(0, e + 1):
                fam.add((s, e))
        B = BOUNDARY
    bfam = set()
    for a in B:
        for b in B:
            if a <= b:
                bfam.add((a, b))
    return sorted(fam), sorted(bfam)


def run(tier):
    run = common.Run(PROP, tier)
    run.known.probe()
    kf1 = False
    common.import_pregex()
    import pregex.meta.essentials as me
    run.functions = common.src_fingerprint(common.resolve([(me.Integer, "__init__"), (me.PositiveInteger, "__init__"), (me.NegativeInteger, "__init__"), (me.UnsignedInteger, "__init__"), (None, getattr(me, "_Integer__integer", me.Integer.__mro__[1].__init__)), (me.Integer.__mro__[1], "__init__")]))
    fam, bfam = configs(tier)
    tasks = [("task_spec_selfcheck", (300,)), ("task_validation", ("bounds",))]
    for (s, e) in fam:
        L = len(str(e)) + 3
        tasks.append(("task_embedded", ("Integer", False, s, e, L, kf1)))
    for (s, e) in bfam:
        L = min(len(str(e)) + 3, 8 if tier == "quick" else 13)
        for variant, inc in VARIANTS:
            tasks.append(("task_embedded", (variant, inc, s, e, L, kf1)))
            tasks.append(("task_extensible", (variant, inc, s, e, min(len(str(e)) + 3, 13))))
    run.add(common.run_tasks(__name__, tasks, progress=200))
    run.triage(REGIONS)
    run.bounds = {"ranges": "%d (start,end) pairs for Integer + %d boundary pairs x 5 variants x {embedded, extensible}" % (len(fam), len(bfam)),
                  "text_length": "0..len(str(end))+3 (capped at %d for embedded boundary family)" % (8 if tier == "quick" else 13),
                  "characters": "embedded: digits, '+', '-', every non-word character; extensible: all of Unicode; minus Unicode-only \\d\\s\\w members"}
    run.assumptions = ["embedded obligations: texts contain no letters/underscore (their effect next to a numeral is not fixed by the property)",
                       "sign rules as documented in the class docstrings/tests, written out in props/numspec.py (integer_spec_match)",
                       "extensible obligations use the prefix pattern AnyButDigit()"]
    return run.finish(explanation="Each concrete pattern emitted by the real generator is encoded with CPython's backtracking semantics "
                      "(vlib/rexsat.Exact, finditer scan included) over a symbolic text; z3 searches for a text whose finditer result differs "
                      "from the numeric specification (value as a linear term over digit variables). unsat for every length up to the bound = discharged.")
