from props import wrap


def run(tier):
    return wrap.run("C14", tier)
