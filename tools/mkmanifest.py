#!/usr/bin/env python3
"""Regenerates /verif/MANIFEST.json from the table below."""
import json, os
HERE = os.path.dirname(os.path.dirname(os.path.abspath(__file__)))
props = [json.loads(l) for l in open(os.path.join(HERE, "properties.jsonl"))]
ids = [p["id"] for p in props]

# id -> (technique, level text, level note, design ref)
CHECKS = {
 "C18": ("z3 RegLan language equivalence (unbounded) + bounded relational SMT encoding of re semantics over a symbolic text",
         "Language of the real extensible IPv4/IPv6 patterns is shown equal to grammars written from the standards for ALL strings "
         "(z3 sequence theory, unsat = no string in the symmetric difference); embedded/non-extensible behaviour is decided for every "
         "text up to the stated length by an SMT encoding of CPython's matching relation. Counterexamples are replayed on the real code.",
         "Trusts z3, CPython's re parser as the reader of the emitted text, the rexsat encoding (differentially validated against re), "
         "and the reference grammars (validated against ipaddress each run). Unicode-only \\d members assumed away as the property allows.",
         "DESIGN.md §2 C18"),
}
_E2NOTE = ("Trusts z3, CPython's re parser as the reader of the emitted text, the rexsat encodings (differentially validated against re), "
           "and the written-out specification in the property module (its plain-Python twin is cross-checked against the z3 form each run). "
           "Unicode-only members of \\d \\s \\w are assumed away as the property allows. Parameters (ranges, bases, formats) are an enumerated family; "
           "texts are decided by the solver for every text up to the stated length.")
CHECKS.update({
 "C15": ("bounded SMT (z3) over a symbolic text: exact encoding of re's backtracking finditer for each real Integer pattern vs a numeric specification",
         "For every enumerated (start,end,variant) the pattern emitted by the real generator is encoded with CPython's priority semantics and z3 shows that no text "
         "up to the bound has a finditer result different from the numeric specification (value as linear term over digit variables, leading zeros, sign rules); "
         "extensible forms via the relational encoding of fullmatch. Bounded in text length and in the enumerated ranges. Invalid start/end arguments from a concrete grid; "
         "a counterexample that only reproduces after the worker's earlier constructions is replayed with that history.", _E2NOTE, "DESIGN.md §2 C15"),
 "C16": ("bounded SMT (z3) over a symbolic text: relational encoding of re matching for each real Decimal pattern vs a numeric/fraction-length specification; CrossHair symbolic execution (z3) of the real constructors with symbolic min_decimal/max_decimal",
         "For every enumerated parameter tuple and variant: no text up to the bound on which the real pattern and the specification disagree "
         "(whole text, embedded spans, extensible forms). Fraction-length bounds min_decimal, max_decimal in [-2, 3] (thorough 5) or None are symbolic in CrossHair harnesses over the real "
         "constructors: InvalidArgumentValueException iff min < 1 or min > max, otherwise the emitted fraction part parses as the repeat {min, max} of a digit; other invalid arguments "
         "from a concrete grid. A counterexample that only reproduces after the worker's earlier constructions is replayed with that history.", _E2NOTE, "DESIGN.md §2 C16"),
 "C17": ("bounded SMT (z3) over a symbolic text: relational encoding of re matching for real Numeral/Word/affix patterns vs alphabet/length/affix specification",
         "All bases 2..16 and enumerated length bounds / affix lists; every text up to the bound and every span decided by the solver.", _E2NOTE, "DESIGN.md §2 C17"),
 "C19": ("bounded SMT (z3) over a symbolic text: relational encoding of re matching for real Date patterns vs reference regexes from the documented table",
         "Each of the 48 formats, formats=None and seeded subsets: equivalence with the documented table for every text; Date languages are finite so the bound "
         "(pattern width + 2) makes the fullmatch verdict complete for all lengths.", _E2NOTE, "DESIGN.md §2 C19"),
})
_PNOTE = ("Trusts z3, CPython's re parser as the reader of the emitted text, the exact rexsat encoding (differentially validated against re incl. capture spans), "
          "and the reference generator vlib/dsl.py (documented meaning of each constructor). Programs are an enumerated family (listed in the evidence bounds); "
          "texts are decided by the solver for every text up to the stated length over all of Unicode.")
CHECKS.update({
 "C02": ("bounded SMT (z3): exact encoding of re's backtracking finditer for the emitted pattern vs the fully parenthesised reference, symbolic text, enumerated programs",
         "About 25k expression trees (depth <= 2 exhaustive over the leaf/composite pools, 3-operand forms, depth 3 in the thorough tier) in class/method/operator spelling: "
         "for each, z3 shows no text up to the bound on which match spans or capture spans differ from the fully parenthesised composition.", _PNOTE, "DESIGN.md §2 C02"),
 "C04": ("bounded SMT (z3): exact encoding, every quantifier/bounds/greediness/spelling vs (?:operand){n,m}[?], symbolic text; documented exceptions by class",
         "All 7 quantifiers (classes, methods, * on both sides) x bounds 0..3(4)/None x greediness x 33 operand kinds incl. already-quantified, alternated, empty-matching and "
         "non-repeatable ones: repetition counts and greedy/lazy preference are compared on every text up to the bound; invalid bounds must raise the documented class.", _PNOTE, "DESIGN.md §2 C04"),
 "C05": ("bounded SMT (z3): exact encoding, expressions with empty operands vs the same expressions without them, symbolic text, enumerated programs",
         "28 ways an empty pattern arises x every operand position of every operator x 11 neighbours, again under 12 outer operators: emitted pattern equivalent to the "
         "empty-free reference on every text up to the bound; EmptyNegativeAssertionException exactly where documented.", _PNOTE, "DESIGN.md §2 C05"),
 "C08": ("real parser group count/names vs the expression's capture list, then bounded SMT (z3) exact encoding of spans and group spans, enumerated nestings",
         "Capture/Group nestings of depth <= 3 (named, unnamed, case-insensitive) around 52 operand kinds incl. literals with ( ) ?: ?P<, classes containing parentheses, "
         "look-arounds on the empty pattern, conditionals: group count, numbering and names equal the documented capture list, and matching is unchanged "
         "(is_case_insensitive scoped to its group) on every text up to the bound.", _PNOTE, "DESIGN.md §2 C08"),
})
_CNOTE = ("Trusts z3 and CPython's re parser (structural reading of the emitted class text into intervals/categories); specified sets written from the "
          "documentation in props/clsmodel.py. Arguments / operand geometry are an enumerated family; hash seeds are real interpreters enumerated; the candidate character is "
          "decided by the solver over the whole code-point range (Unicode-only \\d \\s \\w members excluded as the property allows).")
_E1NOTE = ("Trusts CrossHair 0.0.110 + z3 with the plugin patches listed in DESIGN.md §1 (identity-preserving; each explored path is re-run concretely on a model of its "
           "path condition and must agree - concolic self-validation), CPython's re parser (executed symbolically) as the reader of the emitted text, and the reference "
           "generator vlib/dsl.py. Bounded in the number of symbolic characters per string and in the enumerated argument positions.")
CHECKS.update({
 "C01": ("symbolic execution (CrossHair/z3) of the real constructors + real re parser on a symbolic string argument, all paths; plus bounded SMT (z3) exact encoding for concrete boundary literals",
         "Every str-accepting position (about 100 incl. spellings): for EVERY string of the stated length (every code point per character) the emitted text is read by the "
         "real parser exactly as the fully parenthesised reference in which the string contributes only literal characters ('Confirmed over all paths'); longer boundary "
         "literals are decided against the reference for all texts up to the bound.", _E1NOTE, "DESIGN.md §2 C01"),
 "C06": ("real constructors under enumerated hash seeds; z3 decides membership of every code point (minterm abstraction) between the emitted class and the specified set",
         "All named classes/tokens and AnyFrom/AnyButFrom/AnyBetween/AnyButBetween over a boundary pool (every in-class metacharacter, neighbours, tokens, invalid arguments): "
         "no code point whose membership differs from the specified set; documented exceptions by class.", _CNOTE, "DESIGN.md §2 C06"),
 "C07": ("real class algebra under enumerated hash seeds; z3 decides membership of every code point between the result and Python-set algebra on the operands' specified sets",
         "Union, subtraction, negation and double negation over enumerated interval geometry (adjacent/overlapping/nested/equal-end ranges around every metacharacter), negated and "
         "mixed operands, Any, tokens and bare characters: exact set algebra over the whole code-point range, EmptyClassException iff nothing is left.", _CNOTE, "DESIGN.md §2 C07"),
})
CHECKS.update({
 "C03": ("symbolic execution (CrossHair/z3) of the real constructors for symbolic names/characters/numbers, all paths; totality over enumerated DSL programs; export equivalence by bounded SMT (z3) exact encoding",
         "For every group name up to the stated length (every code point), every class-constructor character, every Backreference number and small meta-pattern parameters: the call "
         "raises only the documented library exception or returns text the real parser accepts. About 11k DSL programs incl. invalid arguments never raise a foreign exception and always "
         "export a printable, compilable pattern; the exported text is equivalent to the internal one on all texts up to the bound.", _E1NOTE, "DESIGN.md §2 C03"),
 "C09": ("enumerated quantifier x operand programs decided against the documented repeatability rule; symbolic execution (CrossHair/z3) for symbolic literals and bounds",
         "42 quantifier forms x 112 operands: CannotBeRepeatedException exactly for bounds above one on the 7 direct anchor/look-around constructors (also over the empty pattern), never for "
         "assertion-free operands; for EVERY literal string up to the stated length in every repeating spelling the exception is never raised (all paths confirmed).", _E1NOTE, "DESIGN.md §2 C09"),
 "C10": ("enumerated assertion shapes decided against the structural width; symbolic execution (CrossHair/z3) for symbolic characters inside the assertion literal/class and symbolic repetition bounds",
         "73 fixed / variable width assertion shapes x 4 look-behind constructors (classes and methods): NonFixedWidthPatternException iff the structural width is not a single value, accepted "
         "constructions compile; the same for every character inside the assertion literal / class and every repetition bound in the stated range.", _E1NOTE, "DESIGN.md §2 C10"),
})
CHECKS["C04"] = (CHECKS["C04"][0] + "; symbolic execution (CrossHair/z3) with symbolic bounds n, m and greediness", CHECKS["C04"][1] +
                 " Symbolic-bound harnesses: for every n, m in the stated integer range (and None) the real parser reads the emitted text as REPEAT(n, m, greedy|lazy, operand).",
                 CHECKS["C04"][2], CHECKS["C04"][3])
_E3NOTE = ("Trusts CrossHair 0.0.110 + z3 with the plugin patches of DESIGN.md §1 and CrossHair's model of re matching (relib, patched) as the engine on BOTH sides of the comparison "
           "(wrapper vs direct re.finditer/fullmatch on the emitted text in the same run), so a discrepancy can only come from the wrapper code; counterexamples are replayed with the "
           "real re. Blind spots of the model (empty subject, Match.lastindex) are covered by concrete execution of the same harness body on listed sources. File I/O is a stub.")
for _p, _t in (("C11", "has_match/is_exact_match/get_matches(_and_pos)/iterate_* == what re finds, compiled or not and after every history of compile()/get_compiled_pattern(True|False)/purge()/match calls"),
               ("C12", "get_captures(_and_pos)/get_named_captures(_and_pos) and iterate_* == re's groups, spans by group identity, None/(-1,-1) for non-participants, include_empty / relative_to_match symbolic"),
               ("C13", "split_by_match / split_by_capture rebuild the source from the match / capture spans; replace == the first count matches replaced, negative count rejected"),
               ("C14", "every method with is_path gives the same result for a path as for the file's content (stubbed open); context windows == text[max(s-nl,0):min(e+nr,len)] with symbolic nl, nr")):
    CHECKS[_p] = ("symbolic execution (CrossHair/z3) of the real wrapper methods on a symbolic source text, all paths; oracle = direct re on the emitted text; concrete points with the real re",
                  "For concrete patterns (empty-width, prefix alternation, lazy, anchors, DOTALL, look-arounds, mixed named/unnamed/optional/nested/empty groups) and EVERY source text up to the "
                  "stated length (every code point): " + _t + ".", _E3NOTE, "DESIGN.md §2 " + _p)
for _p in ("C06", "C07"):
    CHECKS[_p] = (CHECKS[_p][0] + "; symbolic execution (CrossHair/z3) with symbolic argument characters and a symbolic candidate code point", CHECKS[_p][1] +
                  " CrossHair harnesses additionally make the argument character(s) symbolic: for every argument character and every candidate the membership read from the real "
                  "parser's tree equals the requested set (all paths confirmed).", CHECKS[_p][2] + " E1 part: " + _E1NOTE, CHECKS[_p][3])
CHECKS["C20"] = ("symbolic execution (CrossHair/z3) of one builder operation on an object with symbolic literal content (inductive step); seed-dependent texts decided equivalent by bounded SMT (z3) exact encoding; two-step histories enumerated concretely",
                 "For EVERY literal character, each builder operation leaves its operand's text / inferred type / repeatability unchanged and returns what a fresh equal object returns (all paths); "
                 "class operands likewise for every character. About 4k expressions rebuilt under several real hash seeds give the same text or texts proven equivalent on all texts up to the bound. "
                 "All two-operation histories (45 operations x 12 operands, aliasing, compile/matching interleaved) on a shared pool keep every object's value and behaviour (enumerated - validation).",
                 _E1NOTE, "DESIGN.md §2 C20")
NOT_YET = "check not built yet in this round (work in progress; see DESIGN.md for the planned engine)"

m = {
 "version": 1,
 "setup_cmd": "python3-vt -c 'import z3, crosshair; print(z3.get_version_string())' && /venv/bin/python -c 'import sys; print(sys.version)'",
 "hooks": {"guard": "none (no source hooks: instrumentation is injected from the harness side)",
           "enable": "checks import pregex from /repo/src as is; PYTHONDONTWRITEBYTECODE=1",
           "baseline_off_cmd": "cd /repo && /venv/bin/python -m pytest -ra -q -p no:cacheprovider --timeout=900 --continue-on-collection-errors",
           "source_commits": [], "add_only": True},
 "engines": [
   {"name": "symx", "path": "vlib/symx/", "serves_properties": ["C01", "C03", "C04", "C06", "C07", "C09", "C10", "C11", "C12", "C13", "C14", "C20"],
    "kind_free_text": "CrossHair symbolic execution of the real pregex constructors together with CPython's pure-Python re parser; symbolic characters / ints; "
                      "per-path concolic self-validation; counterexamples followed up by rexsat and replayed"},
   {"name": "rexsat", "path": "vlib/rexsat.py", "serves_properties": sorted(CHECKS),
    "kind_free_text": "SMT (z3) encodings of CPython re semantics for the concrete pattern emitted by the real code and a symbolic text: "
                      "RegLan (unbounded), relational bounded, exact backtracking-order bounded"},
 ],
 "checks": [],
 "not_applicable": [],
 "notes": "Every check regenerates its encoding from /repo's working tree on each run; exit 0 held / KNOWN-FINDING only, exit 1 + VIOLATION line, "
          "exit 3 harness error (never a pass). Known findings: known_findings.json.",
}
for i in ids:
    if i in CHECKS:
        tech, text, note, ref = CHECKS[i]
        m["checks"].append({
            "property_id": i,
            "quick_cmd": "./vcheck %s --tier quick" % i,
            "thorough_cmd": "./vcheck %s --tier thorough" % i,
            "evidence_file": "evidence/%s.json" % i,
            "replay_cmd_template": "./vcheck replay {path}",
            "engine": "rexsat",
            "level_claimed": {"category": "other", "text": text, "design_ref": ref},
            "level_note": note,
            "technique": tech,
        })
    else:
        m["not_applicable"].append({"property_id": i, "reason": NOT_YET})
json.dump(m, open(os.path.join(HERE, "MANIFEST.json"), "w"), indent=1)
print("checks:", [c["property_id"] for c in m["checks"]])
