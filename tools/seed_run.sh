#!/bin/sh
# usage: seed_run.sh <patch.diff> <prop> [tier]  -> applies the patch to /repo, runs the check, reverts
p="$1"; prop="$2"; tier="${3:-quick}"
cd /repo && git diff --quiet || { echo "/repo dirty"; exit 2; }
git -C /repo apply "$p" || { echo APPLY-FAIL; exit 2; }
cd /verif && ./vcheck $prop --tier $tier 2>/dev/null | grep -E "VIOLATION|KNOWN|tier=|HARNESS" | head -8; rc=$?
git -C /repo checkout -- . 
