#!/bin/sh
# usage: seed_verify.sh <dir with patch.diff demo.py>   -> verifies a candidate seeded change in a scratch worktree of /repo HEAD
d="$1"; wt=/tmp/wt/verify_$$
git -C /repo worktree add -q --detach $wt HEAD || exit 2
cd $wt
ok=1
PYTHONPATH=$wt/src /venv/bin/python -W ignore "$d/demo.py" >/dev/null 2>&1; r0=$?
if ! git apply "$d/patch.diff" 2>/dev/null; then echo "APPLY-FAIL"; ok=0; else
PYTHONPATH=$wt/src /venv/bin/python -W ignore "$d/demo.py" >/dev/null 2>&1; r1=$?
t=$(PYTHONPATH=$wt/src /venv/bin/python -m pytest -q -p no:cacheprovider 2>&1 | tail -1)
echo "demo_without=$r0 demo_with=$r1 tests: $t"
fi
cd /; git -C /repo worktree remove --force $wt
