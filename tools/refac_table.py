#!/usr/bin/env python3
"""regenerates /verif/refactors/INDEX.md from the meta.json files"""
import glob, json, os
rows = []
for f in sorted(glob.glob("/verif/refactors/*/meta.json")):
    d = json.load(open(f))
    notes = ""
    np_ = os.path.join(os.path.dirname(f), "notes.md")
    if os.path.exists(np_):
        notes = " ".join(open(np_).read().split())[:260]
    ran = ", ".join("%s:%s" % (x["check"], {0: "ok", 1: "VIOLATION", 3: "harness-error"}.get(x["exit"], x["exit"])) for x in d["ran"])
    rows.append("| %s | %s | %s | %s | %s |" % (d["name"], d.get("test_suite_with_change", "?").split(",")[0], ran,
                                              ", ".join(d.get("alarms", [])) or "none", notes.replace("|", "\\|")))
with open("/verif/refactors/INDEX.md", "w") as f:
    f.write("# Behaviour-preserving changes (false-alarm test; quick tier, VERIF_REPO=<worktree with the change>)\n\n"
            "Every check is expected to exit 0 on these. `alarms` lists checks that did not.\n\n"
            "| change | test suite | checks run | alarms | what was changed |\n|---|---|---|---|---|\n" + "\n".join(rows) + "\n")
print(len(rows), "rows")
