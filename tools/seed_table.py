#!/usr/bin/env python3
"""regenerates /verif/seeded/INDEX.md from the meta.json files"""
import glob, json, os
rows = []
for f in sorted(glob.glob("/verif/seeded/*/meta.json")):
    m = json.load(open(f))
    first = ""
    for r in m.get("ran", []):
        if r.get("first_violations"):
            first = r["first_violations"][0].replace("|", "/").replace("\n", " ")[:140]
            break
    need = (m.get("needs_to_manifest") or "").strip().splitlines()
    need = next((l.strip("-# *") for l in need if "rigger" in l), need[0].strip("-# *") if need else "")[:160].replace("|", "/")
    rows.append("| %s | %s | %s | %s | %s | %s |" % (m["name"], m["property"], "yes" if m.get("valid_seed") else "NO",
                ", ".join(m.get("detected_by") or []) or "**missed**", need, first))
with open("/verif/seeded/INDEX.md", "w") as f:
    f.write("# Seeded changes and the checks that report them (quick tier, VERIF_REPO=<worktree with the change>)\n\n"
            "| change | property | confirmed (tests pass, demo flips) | reported by | what it needs to manifest | first violation reported |\n|---|---|---|---|---|---|\n")
    f.write("\n".join(rows) + "\n")
print(len(rows), "rows;", sum(1 for r in rows if "**missed**" in r), "missed")
