#!/bin/sh
# usage: seed_batch.sh <seed dir root> <id/k> <prop> ...   e.g. seed_batch.sh /tmp/seeded_out C02/2 C08
root="$1"; shift
while [ $# -ge 2 ]; do
  d="$root/$1"; prop="$2"; shift 2
  v=$(/verif/tools/seed_verify.sh "$d" 2>&1 | tail -1)
  r=$(/verif/tools/seed_run.sh "$d/patch.diff" $prop 2>&1 | grep -E "tier=|APPLY|dirty" | sed -e 's/obligations=.*violations=/violations=/' -e 's/ solver.*//')
  echo "$d -> $prop | $v | $r"
done
