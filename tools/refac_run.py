#!/usr/bin/env python3
"""refac_run.py <dir with patch.diff [notes.md]> <name> <check> [<check> ...]
False-alarm test: applies a behaviour-preserving change in a scratch worktree of /repo HEAD, confirms that the test
suite passes with it, runs the given checks against that worktree (VERIF_REPO / VERIF_OUT; /repo and /verif/evidence
untouched) and stores patch + meta.json under /verif/refactors/<name>/.  Every check is expected to exit 0."""
import json, os, shutil, subprocess, sys, tempfile, time

src, name = sys.argv[1], sys.argv[2]
checks = sys.argv[3:]
wt = tempfile.mkdtemp(prefix="refwt_", dir="/tmp")
os.rmdir(wt)
out = tempfile.mkdtemp(prefix="refout_", dir="/tmp")
meta = {"name": name, "source": "independent sub-agent asked for a behaviour-preserving refactoring (area prompt + property texts, "
        "own scratch worktree, nothing from /verif)", "ran": []}
try:
    subprocess.run(["git", "-C", "/repo", "worktree", "add", "-q", "--detach", wt, "HEAD"], check=True)
    meta["repo_head"] = subprocess.run(["git", "-C", "/repo", "rev-parse", "--short", "HEAD"], capture_output=True, text=True).stdout.strip()
    ap = subprocess.run(["git", "-C", wt, "apply", os.path.join(src, "patch.diff")], capture_output=True, text=True)
    if ap.returncode != 0:
        print(name, "APPLY-FAIL", ap.stderr[:200])
        sys.exit(2)
    env = dict(os.environ, PYTHONPATH=os.path.join(wt, "src"), PYTHONDONTWRITEBYTECODE="1")
    t = subprocess.run(["/venv/bin/python", "-m", "pytest", "-q", "-p", "no:cacheprovider"], capture_output=True, text=True, env=env, cwd=wt, timeout=900)
    meta["test_suite_with_change"] = t.stdout.strip().splitlines()[-1] if t.stdout.strip() else "?"
    for c in checks:
        t0 = time.time()
        e2 = dict(os.environ, VERIF_REPO=wt, VERIF_OUT=out)
        r = subprocess.run(["/verif/vcheck", c, "--tier", "quick"], capture_output=True, text=True, env=e2, cwd="/verif", timeout=5400)
        lines = [l for l in r.stdout.splitlines() if l.startswith("VIOLATION") or " tier=" in l]
        det = []
        for l in lines:
            if l.startswith("VIOLATION"):
                try:
                    d = json.load(open(l.split("replay=")[1]))
                    det.append({"name": d.get("name"), "detail": (d.get("detail") or "")[:400]})
                except Exception:
                    pass
        meta["ran"].append({"check": c, "exit": r.returncode, "summary": [l for l in lines if " tier=" in l][-1:],
                            "violations": det[:3], "stderr_tail": r.stderr[-600:] if r.returncode not in (0, 1) else "",
                            "wall_s": round(time.time() - t0, 1)})
        print(name, c, "exit", r.returncode, (meta["ran"][-1]["summary"] or [""])[0][:150], flush=True)
    meta["alarms"] = [x["check"] for x in meta["ran"] if x["exit"] != 0]
    dst = os.path.join("/verif/refactors", name)
    os.makedirs(dst, exist_ok=True)
    shutil.copy(os.path.join(src, "patch.diff"), dst)
    if os.path.exists(os.path.join(src, "notes.md")):
        shutil.copy(os.path.join(src, "notes.md"), dst)
    json.dump(meta, open(os.path.join(dst, "meta.json"), "w"), indent=1)
    print(name, "tests:", meta["test_suite_with_change"], "ALARMS:", meta["alarms"])
finally:
    subprocess.run(["git", "-C", "/repo", "worktree", "remove", "--force", wt], capture_output=True)
    shutil.rmtree(out, ignore_errors=True)
