#!/bin/sh
# usage: seed_more.sh <root> <prop> <k> <round> <check>...   runs further checks against an already collected seeded change
root="$1"; p="$2"; k="$3"; r="$4"; shift 4
python3 /verif/tools/seed_collect.py "$root/$p/$k" "$p-$r-$k" "$p" "$@" 2>&1 | tail -1
