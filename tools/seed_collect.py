#!/usr/bin/env python3
"""seed_collect.py <seed dir> <name> <property> [<check> ...]
Confirms a candidate seeded change in a scratch worktree of /repo HEAD (applies, full test suite passes, demo passes
without / fails with it), runs the given checks (default: the property's own) against that worktree (VERIF_REPO /
VERIF_OUT, so /repo and /verif/evidence are untouched) and stores patch, demo and meta.json under /verif/seeded/<name>/."""
import json, os, shutil, subprocess, sys, tempfile, time

src, name, prop = sys.argv[1], sys.argv[2], sys.argv[3]
checks = sys.argv[4:] or [prop]
wt = tempfile.mkdtemp(prefix="seedwt_", dir="/tmp")
os.rmdir(wt)
out = tempfile.mkdtemp(prefix="seedout_", dir="/tmp")
meta = {"name": name, "property": prop, "source": "independent sub-agent given only the property text and a scratch worktree",
        "ran": [], "confirmed": {}}
try:
    subprocess.run(["git", "-C", "/repo", "worktree", "add", "-q", "--detach", wt, "HEAD"], check=True)
    head = subprocess.run(["git", "-C", "/repo", "rev-parse", "--short", "HEAD"], capture_output=True, text=True).stdout.strip()
    meta["repo_head"] = head
    env = dict(os.environ, PYTHONPATH=os.path.join(wt, "src"), PYTHONDONTWRITEBYTECODE="1")
    demo = os.path.join(src, "demo.py")
    r0 = subprocess.run(["/venv/bin/python", "-W", "ignore", demo], capture_output=True, text=True, env=env, timeout=600).returncode
    ap = subprocess.run(["git", "-C", wt, "apply", os.path.join(src, "patch.diff")], capture_output=True, text=True)
    if ap.returncode != 0:
        print(name, "APPLY-FAIL")
        sys.exit(2)
    r1 = subprocess.run(["/venv/bin/python", "-W", "ignore", demo], capture_output=True, text=True, env=env, timeout=600)
    t = subprocess.run(["/venv/bin/python", "-m", "pytest", "-q", "-p", "no:cacheprovider"], capture_output=True, text=True, env=env, cwd=wt, timeout=900)
    tests = t.stdout.strip().splitlines()[-1] if t.stdout.strip() else "?"
    meta["confirmed"] = {"demo_exit_without_change": r0, "demo_exit_with_change": r1.returncode, "test_suite_with_change": tests,
                         "demo_output_with_change": (r1.stdout + r1.stderr)[-400:]}
    ok = (r0 == 0 and r1.returncode != 0 and " passed" in tests and "failed" not in tests)
    meta["valid_seed"] = ok
    for c in checks:
        t0 = time.time()
        e2 = dict(os.environ, VERIF_REPO=wt, VERIF_OUT=out)
        r = subprocess.run(["/verif/vcheck", c, "--tier", "quick"], capture_output=True, text=True, env=e2, cwd="/verif", timeout=3600)
        lines = [l for l in r.stdout.splitlines() if l.startswith("VIOLATION") or " tier=" in l]
        det = []
        for l in lines:
            if l.startswith("VIOLATION"):
                pth = l.split("replay=")[1]
                try:
                    d = json.load(open(pth))
                    det.append((d.get("detail") or "")[:240])
                except Exception:
                    pass
        meta["ran"].append({"cmd": "VERIF_REPO=<worktree with the change> ./vcheck %s --tier quick" % c, "exit": r.returncode,
                            "summary": [l for l in lines if " tier=" in l][-1:] , "violations": len([l for l in lines if l.startswith("VIOLATION")]),
                            "first_violations": det[:3], "wall_s": round(time.time() - t0, 1)})
    prev = os.path.join("/verif/seeded", name, "meta.json")
    if os.path.exists(prev):                      # further checks for an already collected change: merge
        old = json.load(open(prev))
        if old.get("repo_head") == meta["repo_head"]:
            have = {x["cmd"] for x in meta["ran"]}
            meta["ran"] = [x for x in old.get("ran", []) if x["cmd"] not in have] + meta["ran"]
    meta["detected_by"] = [x["cmd"].split("vcheck ")[1].split()[0] for x in meta["ran"] if x["exit"] == 1]
    notes = os.path.join(src, "notes.md")
    meta["needs_to_manifest"] = open(notes).read()[:1500] if os.path.exists(notes) else ""
    dst = os.path.join("/verif/seeded", name)
    os.makedirs(dst, exist_ok=True)
    shutil.copy(os.path.join(src, "patch.diff"), dst)
    shutil.copy(demo, dst)
    if os.path.exists(notes):
        shutil.copy(notes, dst)
    json.dump(meta, open(os.path.join(dst, "meta.json"), "w"), indent=1)
    print(name, "valid" if ok else "INVALID", "detected_by", meta["detected_by"], [x["summary"] for x in meta["ran"]][0][:1] if meta["ran"] else "")
finally:
    subprocess.run(["git", "-C", "/repo", "worktree", "remove", "--force", wt], capture_output=True)
    shutil.rmtree(out, ignore_errors=True)
