import os, sys, importlib
HERE = os.path.dirname(os.path.dirname(os.path.abspath(__file__)))
sys.path.insert(0, HERE)
sys.dont_write_bytecode = True


def main(argv):
    if not argv:
        print("usage: vcheck <Cxx> --tier quick|thorough | vcheck replay <file>")
        return 2
    from vlib import common
    if argv[0] == "replay":
        rc = common.replay_file(argv[1])
        return rc
    prop = argv[0]
    tier = os.environ.get("VERIF_TIER", "quick")
    if "--tier" in argv:
        tier = argv[argv.index("--tier") + 1]
    try:
        mod = importlib.import_module("props." + prop)
        return mod.run(tier)
    except Exception:            # an internal error of the machinery is never reported as a violation (exit 1)
        import traceback
        sys.stderr.write("HARNESS-ERROR %s: %s\n" % (prop, traceback.format_exc()[-1500:]))
        return 3


if __name__ == "__main__":
    sys.exit(main(sys.argv[1:]))
