"""Evaluates class expressions under the *current* PYTHONHASHSEED (run as a subprocess, one per seed).
stdin: JSON list of Python sources; stdout: JSON list of ['ok', pattern, negated?] | ['exc', class name, message]"""
import json, sys, os, warnings
warnings.simplefilter("ignore")
sys.dont_write_bytecode = True
sys.path.insert(0, os.path.join(os.environ.get("VERIF_REPO", "/repo"), "src"))
ns = {}
exec("from pregex.core.pre import Pregex\nfrom pregex.core.classes import *\nfrom pregex.core.tokens import *\n"
     "from pregex.core.exceptions import *\nfrom pregex.core.operators import *\nfrom pregex.core.quantifiers import *\n"
     "from pregex.core.groups import *\nfrom pregex.core.assertions import *\nfrom pregex.meta.essentials import *\n", ns)
srcs = json.load(sys.stdin)
# evaluation order differs per process (seeded by the hash seed): results must not depend on what was built before
import random
order = list(range(len(srcs)))
random.Random(int(os.environ.get("PYTHONHASHSEED", "0") or 0) * 7919 + 1).shuffle(order)
out = [None] * len(srcs)
for i in order:
    s = srcs[i]
    try:
        o = eval(s, ns)
        out[i] = ["ok", str(o), type(o).__name__]
    except RecursionError:
        out[i] = ["exc", "RecursionError", ""]
    except Exception as e:
        out[i] = ["exc", type(e).__name__, str(e)[:120]]
json.dump(out, sys.stdout)
