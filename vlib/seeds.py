"""run class expressions under several real interpreter hash seeds (configurations enumerated)"""
import json, os, subprocess, sys
from concurrent.futures import ThreadPoolExecutor
from . import common

HERE = os.path.dirname(os.path.abspath(__file__))


def eval_under_seed(srcs, seed):
    env = dict(os.environ)
    env["PYTHONHASHSEED"] = str(seed)
    env["PYTHONDONTWRITEBYTECODE"] = "1"
    env["VERIF_REPO"] = common.REPO
    env.pop("PYTHONPATH", None)
    r = subprocess.run([sys.executable, "-W", "ignore", os.path.join(HERE, "classgen.py")], input=json.dumps(srcs),
                       capture_output=True, text=True, env=env, timeout=1200)
    if r.returncode != 0:
        raise RuntimeError("classgen failed under seed %s: %s" % (seed, r.stderr[-800:]))
    return json.loads(r.stdout)


def eval_under_seeds(srcs, seeds):
    """-> {src: {outcome tuple: [seeds...]}}"""
    res = {s: {} for s in srcs}
    with ThreadPoolExecutor(max_workers=min(len(seeds), common.NPROC)) as ex:
        for seed, outs in zip(seeds, ex.map(lambda sd: eval_under_seed(srcs, sd), seeds)):
            for s, o in zip(srcs, outs):
                res[s].setdefault(tuple(o[:2]) if o[0] == "ok" else (o[0], o[1]), []).append(seed)
    return res
