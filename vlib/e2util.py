"""helpers shared by the E2 property modules"""
import time, z3
from . import rexsat as R


def solve_conds(prob, conds, extra=()):
    """conds: {key: violation condition}. Returns (result, text, key, solver_s)"""
    viol = R.OR(*conds.values())
    if viol is False:
        return "unsat", None, None, 0.0
    sv = z3.Solver()
    for dd in prob.domain():
        sv.add(dd)
    for e in extra:
        sv.add(R.B(e))
    sv.add(R.B(viol))
    t1 = time.time()
    r = str(sv.check())
    dt = time.time() - t1
    if r == "sat":
        m = sv.model()
        text = prob.text_of(m)
        for k, c in conds.items():
            if c is True or (c is not False and z3.is_true(m.eval(c, model_completion=True))):
                return "sat", text, k, dt
        return "sat", text, None, dt
    return r, None, None, dt


def bad_pattern_result(name, src, exc):
    return {"name": name, "status": "violated", "detail": "constructor/pattern failed: %r" % (exc,),
            "inputs": {"text": "", "src": src},
            "script": "try:\n    p = %s\n    re.compile(str(p), FLAGS)\nexcept Exception as e:\n    REPRODUCED(repr(e))\nNOT_REPRODUCED()\n" % src}


SPAN_SCRIPT = (
    "p = %(src)s\nref = %(ref)r\ntext = %(text)r\ni, j = %(i)d, %(j)d\nmode = %(mode)r\n"
    "def can(pat, i, j):\n"
    "    return re.compile('(?:%%s)(?=[\\\\s\\\\S]{%%d}\\\\Z)' %% (pat, len(text) - j), FLAGS).match(text, i) is not None\n"
    "got = can(str(p), i, j)\n"
    "want = can(ref, i, j)\n"
    "isw = lambda k: 0 <= k < len(text) and re.match(r'[A-Za-z0-9_]', text[k]) is not None\n"
    "if i == 0 and j == len(text) and p.is_exact_match(text) != want:\n"
    "    REPRODUCED('(%%s).is_exact_match(%%r) = %%r; reference %%r says %%r' %% (%(src)r, text, not want, ref, want))\n"
    "if mode == 'any' and got != want: REPRODUCED('span %%r of %%r: pattern %%r reference %%r' %% (text[i:j], text, got, want))\n"
    "if mode == 'delim':\n"
    "    glued = isw(i - 1) or isw(j)\n"
    "    if glued and got and j > i: REPRODUCED('span %%r of %%r matched although glued to a word character' %% (text[i:j], text))\n"
    "    if not glued and got != want: REPRODUCED('span %%r of %%r: pattern %%r reference %%r' %% (text[i:j], text, got, want))\n"
    "NOT_REPRODUCED()\n")
