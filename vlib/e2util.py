"""helpers shared by the E2 property modules"""
import time, z3
from . import rexsat as R


XCHECK = {"n": 0, "agree": 0, "disagree": [], "inconclusive": 0}


def cross_check(sv, result, every=25):
    """diff two other solvers (z3 4.8.12 binary, cvc5 1.0.3 binary) against the verdict of the z3 5.1 library on the SMT-LIB dump of a
    sampled query; a disagreement is a harness error (never a pass)"""
    import os, subprocess, tempfile
    XCHECK["n"] += 1
    if every <= 0 or (XCHECK["n"] - 1) % every != 0:
        return
    text = "(set-logic ALL)\n" + sv.to_smt2()
    fd, path = tempfile.mkstemp(suffix=".smt2")
    try:
        with os.fdopen(fd, "w") as f:
            f.write(text)
        for cmd in (["/usr/bin/z3", "-T:20", path], ["cvc5", "--tlimit=20000", path]):
            try:
                r = subprocess.run(cmd, capture_output=True, text=True, timeout=40)
                out = (r.stdout + r.stderr)
                first = out.strip().splitlines()[0].strip() if out.strip() else ""
            except Exception as e:
                first = "error %r" % (e,)
            if "(error" in out or first not in ("sat", "unsat"):
                XCHECK["inconclusive"] += 1
            elif first == result:
                XCHECK["agree"] += 1
            else:
                XCHECK["disagree"].append((cmd[0], first, result))
    finally:
        os.unlink(path)


def solve_conds(prob, conds, extra=()):
    """conds: {key: violation condition}. Returns (result, text, key, solver_s)"""
    viol = R.OR(*conds.values())
    if viol is False:
        return "unsat", None, None, 0.0
    sv = z3.Solver()
    for dd in prob.domain():
        sv.add(dd)
    for e in extra:
        sv.add(R.B(e))
    sv.add(R.B(viol))
    t1 = time.time()
    r = str(sv.check())
    dt = time.time() - t1
    import os as _os
    if r in ("sat", "unsat") and _os.environ.get("VERIF_XCHECK", "") != "0":
        cross_check(sv, r, int(_os.environ.get("VERIF_XCHECK_EVERY", "40")))
        if XCHECK["disagree"]:
            raise RuntimeError("solver disagreement on an SMT-LIB dump: %r" % XCHECK["disagree"][:2])
    if r == "sat":
        m = sv.model()
        text = prob.text_of(m)
        for k, c in conds.items():
            if c is True or (c is not False and z3.is_true(m.eval(c, model_completion=True))):
                return "sat", text, k, dt
        return "sat", text, None, dt
    return r, None, None, dt


def bad_pattern_result(name, src, exc):
    return {"name": name, "status": "violated", "detail": "constructor/pattern failed: %r" % (exc,),
            "inputs": {"text": "", "src": src},
            "script": "try:\n    p = %s\n    re.compile(str(p), FLAGS)\nexcept Exception as e:\n    REPRODUCED(repr(e))\nNOT_REPRODUCED()\n" % src}


SPAN_SCRIPT = (
    "p = %(src)s\nref = %(ref)r\ntext = %(text)r\ni, j = %(i)d, %(j)d\nmode = %(mode)r\n"
    "def can(pat, i, j):\n"
    "    return re.compile('(?:%%s)(?=[\\\\s\\\\S]{%%d}\\\\Z)' %% (pat, len(text) - j), FLAGS).match(text, i) is not None\n"
    "got = can(str(p), i, j)\n"
    "want = can(ref, i, j)\n"
    "isw = lambda k: 0 <= k < len(text) and re.match(r'[A-Za-z0-9_]', text[k]) is not None\n"
    "if i == 0 and j == len(text) and p.is_exact_match(text) != want:\n"
    "    REPRODUCED('(%%s).is_exact_match(%%r) = %%r; reference %%r says %%r' %% (%(src)r, text, not want, ref, want))\n"
    "if mode == 'any' and got != want: REPRODUCED('span %%r of %%r: pattern %%r reference %%r' %% (text[i:j], text, got, want))\n"
    "if mode == 'delim':\n"
    "    glued = isw(i - 1) or isw(j)\n"
    "    if glued and got and j > i: REPRODUCED('span %%r of %%r matched although glued to a word character' %% (text[i:j], text))\n"
    "    if not glued and got != want: REPRODUCED('span %%r of %%r: pattern %%r reference %%r' %% (text[i:j], text, got, want))\n"
    "NOT_REPRODUCED()\n")
