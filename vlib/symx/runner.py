"""Runs `crosshair check` on one harness function and summarises the outcome."""
import os, re, subprocess, sys, time

HERE = os.path.dirname(os.path.abspath(__file__))
PLUGIN = os.path.join(HERE, "plugin.py")


def run_crosshair(pyfile, funcname, per_condition_timeout=60, wall_timeout=None, repo_src="/repo/src", verbose=True,
                  extra_env=None, per_path_timeout=None):
    """-> dict(verdict: confirmed|refuted|unknown|precondition|error, iterations, message, realized: [...], wall_s)"""
    # locate the def line (crosshair addresses functions as file:line)
    line = None
    for i, l in enumerate(open(pyfile), 1):
        if re.match(r"\s*def %s\(" % re.escape(funcname), l):
            line = i + 2          # a line inside the function (its docstring)
            break
    if line is None:
        raise ValueError("function %s not in %s" % (funcname, pyfile))
    env = dict(os.environ)
    env["PYTHONPATH"] = os.pathsep.join([repo_src, os.path.dirname(pyfile), os.path.dirname(os.path.dirname(HERE))])
    env["PYTHONDONTWRITEBYTECODE"] = "1"
    env["PYTHONHASHSEED"] = "0"
    if extra_env:
        env.update(extra_env)
    cmd = [sys.executable, "-W", "ignore", "-m", "crosshair", "check", "--extra_plugin", PLUGIN, "--report_all",
           "--per_condition_timeout", str(per_condition_timeout)]
    if per_path_timeout:
        cmd += ["--per_path_timeout", str(per_path_timeout)]
    if verbose:
        cmd.append("-v")
    cmd.append("%s:%d" % (pyfile, line))
    t0 = time.time()
    try:
        r = subprocess.run(cmd, capture_output=True, env=env, timeout=wall_timeout or (per_condition_timeout * 1.5 + 60))
        out = (r.stdout + r.stderr).decode("utf-8", "replace")
        rc = r.returncode
    except subprocess.TimeoutExpired as e:
        out = ((e.stdout or b"") + (e.stderr or b"")).decode("utf-8", "replace")
        rc = 124
    res = {"wall_s": round(time.time() - t0, 2), "rc": rc, "iterations": None, "realized": [], "message": "", "verdict": "unknown"}
    m = re.findall(r"Number of iterations:\s+(\d+)", out)
    if m:
        res["iterations"] = int(m[-1])
    for l in out.splitlines():
        if "SMT realized symbolic" in l:
            txt = l.split("SMT realized symbolic:")[-1].strip()
            if not re.search(r"len\b|len ==|_len|len\)", txt):
                res["realized"].append(txt[:100])
    res["realized"] = sorted(set(res["realized"]))[:20]
    final = [l for l in out.splitlines() if re.search(r": (error|info|warning): ", l)]
    res["message"] = " | ".join(l.split(": ", 2)[-1][:400] for l in final[-3:])
    joined = "\n".join(final)
    if rc == 124:
        res["verdict"] = "timeout"
    elif "Confirmed over all paths" in joined:
        res["verdict"] = "confirmed"
    elif ": error:" in joined:
        res["verdict"] = "refuted"
    elif "Unable to meet precondition" in joined:
        res["verdict"] = "precondition"
    elif "Not confirmed" in joined:
        res["verdict"] = "unknown"
    else:
        res["verdict"] = "error"
        res["message"] = (res["message"] + " || " + out[-600:])[:1000]
    res["unknown_sat"] = out.count("Unknown satisfiability")
    m = re.findall(r"SYMX-SELFCHECKED-PATHS (\d+)", out)
    res["selfchecked_paths"] = int(m[-1]) if m else 0
    res["mismatches"] = [x[:400] for x in re.findall(r"SYMX-SELFCHECK-MISMATCH (.*)", out)]
    return res


if __name__ == "__main__":
    import json
    r = run_crosshair(sys.argv[1], sys.argv[2], int(sys.argv[3]) if len(sys.argv) > 3 else 60)
    print(json.dumps(r, indent=1))
