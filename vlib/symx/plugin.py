# CrossHair extra plugin for the E1 `symx` engine.  Executed by `crosshair check --extra_plugin`.
# Everything lives inside _install(): the plugin namespace is not visible from nested functions.


def _install():
    import os, re, sys
    import crosshair.core as core
    from crosshair.core import register_patch, realize, with_realized_args
    from crosshair.tracers import NoTracing, ResumedTracing, is_tracing
    from crosshair.statespace import context_statespace
    from crosshair.libimpl import relib
    from crosshair.libimpl.builtinslib import AnySymbolicStr, LazyIntSymbolicStr, SymbolicInt
    import re._parser as sp
    from crosshair.util import CrossHairValue

    # ---- 0. no short-circuiting: CrossHair may replace a call to a function whose docstring it can read as a contract
    #         (pregex's sphinx ':raises X:' lines) by an arbitrary value of the annotated return type ("proxyreturn"),
    #         reconciled only at the end of the path. Every call is executed for real instead.
    core.consider_shortcircuit = lambda *a, **k: None

    # ---- 1. relib: IGNORECASE mask of a literal must escape the literal ---------------------------
    def unicode_ignorecase_mask(cp):
        mask = relib._UNICODE_IGNORECASE_MASKS.get(cp)
        if mask is None:
            chars = relib.caseable_chars()
            matches = re.compile(re.escape(chr(cp)), re.IGNORECASE).findall(chars)
            cps = [ord(c) for c in matches]
            if cp not in cps:
                cps.append(cp)
            mask = relib.CharMask(sorted(cps))
            relib._UNICODE_IGNORECASE_MASKS[cp] = mask
        return mask
    relib.unicode_ignorecase_mask = unicode_ignorecase_mask

    # ---- 1b. relib: a NEGATIVE look-behind with fewer characters before it than its width succeeds
    #           (stock relib returns "no match" for both polarities when offset - width < 0)
    _orig_imp = relib._internal_match_patterns

    def _imp(top_patterns, flags, string, offset, allow_empty=True, ord=ord, chr=chr):
        if len(top_patterns) > 0:
            op, arg = top_patterns[0]
            if op is relib.ASSERT_NOT and arg[0] == -1:
                minw, maxw = arg[1].getwidth()
                if minw == maxw and offset - minw < 0:
                    return _imp(top_patterns[1:], flags, string, offset, allow_empty, ord=ord, chr=chr)
        return _orig_imp(top_patterns, flags, string, offset, allow_empty, ord=ord, chr=chr)
    if not os.environ.get('SYMX_NO_IMP'):
        relib._internal_match_patterns = _imp

    # ---- 1c. relib's match object: span/start/end of a non-participating group are (-1, -1) / -1 and accept names;
    #           groupdict maps names to TEXTS (stock: to spans, and drops non-participating groups); groups(default)
    def _gidx(self, g):
        if isinstance(g, str):
            return self.re.groupindex[g]
        return g

    def _m_span(self, group=0):
        sp_ = self._groups[_gidx(self, group)]
        return (-1, -1) if sp_ is None else sp_

    def _m_start(self, group=0):
        return _m_span(self, group)[0]

    def _m_end(self, group=0):
        return _m_span(self, group)[1]

    def _m_groups(self, default=None):
        out = []
        for i in range(1, len(self._groups)):
            g = self.group(i)
            out.append(default if g is None else g)
        return tuple(out)

    def _m_groupdict(self, default=None):
        ret = {}
        for name, idx in self.re.groupindex.items():
            g = self.group(idx)
            ret[name] = default if g is None else g
        return ret
    relib._Match.span = _m_span
    relib._Match.start = _m_start
    relib._Match.end = _m_end
    relib._Match.groups = _m_groups
    relib._Match.groupdict = _m_groupdict

    # ---- 2. CPython's regex parser: set membership / hashing realises symbolic characters -------------
    sp.DIGITS = tuple("0123456789")
    sp.OCTDIGITS = tuple("01234567")
    sp.HEXDIGITS = tuple("0123456789abcdefABCDEF")
    sp.ASCIILETTERS = tuple("abcdefghijklmnopqrstuvwxyzABCDEFGHIJKLMNOPQRSTUVWXYZ")
    sp.WHITESPACE = tuple(" \t\n\r\v\f")

    def _uniq(items):
        out = []
        for it in items:
            dup = False
            for o in out:
                if o == it:
                    dup = True
                    break
            if not dup:
                out.append(it)
        return out
    sp._uniq = _uniq

    # ---- 2b. str.isidentifier on symbolic text: exact XID tables read from the interpreter instead of realisation -------
    import z3 as _z3

    def _intervals(pred):
        iv = []
        for c in range(0x110000):
            if pred(c):
                if iv and iv[-1][1] == c - 1:
                    iv[-1][1] = c
                else:
                    iv.append([c, c])
        return [(a, b) for a, b in iv]
    _ID_START = _intervals(lambda c: chr(c).isidentifier())
    _ID_CONT = _intervals(lambda c: ("a" + chr(c)).isidentifier())

    def _sym_isidentifier(self):
        n = realize(len(self))
        if n == 0:
            return False
        space = context_statespace()
        for i in range(n):
            cp = ord(self[i])
            with NoTracing():
                tbl = _ID_START if i == 0 else _ID_CONT
                if isinstance(cp, int) and not isinstance(cp, CrossHairValue):
                    ok = any(a <= cp <= b for a, b in tbl)
                else:
                    v = SymbolicInt._coerce_to_smt_sort(cp)
                    ok = space.smt_fork(_z3.Or(*[_z3.And(v >= a, v <= b) if a != b else v == a for a, b in tbl]))
                if not ok:
                    return False
        return True
    AnySymbolicStr.isidentifier = _sym_isidentifier

    # ---- 3. format(): do not realise symbolic ints / objects that format as str(obj) -------------------
    from crosshair.libimpl import builtinslib as bl
    orig_format = core._PATCH_REGISTRATIONS[format]

    def fmt(obj, format_spec=""):
        with NoTracing():
            spec_ok = (not isinstance(format_spec, AnySymbolicStr)) and format_spec == ""
            symint = spec_ok and isinstance(obj, SymbolicInt)
            plain = (spec_ok and not symint and not isinstance(obj, CrossHairValue)
                     and not isinstance(obj, (str, int, float, bytes, complex, tuple, list, dict, set, frozenset, type(None)))
                     and type(obj).__format__ is object.__format__)
        if symint:
            return obj.__repr__()
        if plain:
            return str(obj)
        return orig_format(obj, format_spec)
    core._PATCH_REGISTRATIONS[format] = fmt

    # ---- 4. flat representation of symbolic text -----------------------------------------------------
    def flatten(s):
        """identity on the value of a (symbolic) string: same characters, stored as a flat list of code points"""
        with NoTracing():
            sym = isinstance(s, AnySymbolicStr)
        if not sym:
            return s
        n = realize(len(s))
        cps = []
        for i in range(n):
            c = s[i]
            with NoTracing():
                csym = isinstance(c, AnySymbolicStr)
            cps.append(ord(c) if csym else ord(c))
        with NoTracing():
            for k, x in enumerate(cps):
                if isinstance(x, SymbolicInt) and _z3.is_int_value(x.var):
                    cps[k] = x.var.as_long()          # a constant in symbolic clothing
            allc = all(isinstance(x, int) and not isinstance(x, CrossHairValue) for x in cps)
            if allc:
                return "".join(map(chr, cps))
            return LazyIntSymbolicStr(cps)

    # ---- 4b. ord() of a one-character slice whose bounds are symbolic: the stock patch indexes the code-point view with
    #          tracing off ("Numeric operation on symbolic while not tracing"); index it with tracing on
    stock_ord = core._PATCH_REGISTRATIONS[ord]

    def p_ord(c):
        with NoTracing():
            lazy = isinstance(c, LazyIntSymbolicStr)
        if not lazy:
            if len(c) != 1:
                raise TypeError
            rc = realize(c)
            with NoTracing():
                return ord(rc)
        if len(c) != 1:
            raise TypeError
        with NoTracing():
            cps = c._codepoints
        return cps[0]
    core._PATCH_REGISTRATIONS[ord] = p_ord

    # ---- 5. pregex modules: _re shim (findall realises), flattening of pattern text ---------------------
    import pregex.core.pre as pre
    import pregex.core.classes as classes

    class _CompiledStub:
        pass

    def _widths(sub):
        for op, av in sub:
            if op in (sp.ASSERT, sp.ASSERT_NOT):
                d, p = av
                if d < 0:
                    lo, hi = p.getwidth()
                    if lo != hi:
                        raise re.error("look-behind requires fixed-width pattern")
                _widths(p)
            elif op is sp.SUBPATTERN:
                _widths(av[3])
            elif op is sp.BRANCH:
                for p in av[1]:
                    _widths(p)
            elif op in (sp.MAX_REPEAT, sp.MIN_REPEAT):
                _widths(av[2])
            elif op is sp.GROUPREF_EXISTS:
                _widths(av[1])
                if av[2] is not None:
                    _widths(av[2])

    class NdSet:
        """list-backed set: equality instead of hashing, so symbolic strings stay symbolic (insertion order)"""
        __slots__ = ("items",)

        def __init__(self, it=()):
            self.items = []
            for x in it:
                self.add(x)

        def add(self, x):
            for y in self.items:
                if y == x:
                    return
            self.items.append(x)

        def __iter__(self):
            return iter(list(self.items))

        def __len__(self):
            return len(self.items)

        def __contains__(self, x):
            for y in self.items:
                if y == x:
                    return True
            return False

        def union(self, *others):
            r = NdSet(self.items)
            for o in others:
                for x in o:
                    r.add(x)
            return r

        def difference(self, *others):
            r = NdSet()
            for x in self.items:
                keep = True
                for o in others:
                    for y in o:
                        if y == x:
                            keep = False
                            break
                    if not keep:
                        break
                if keep:
                    r.items.append(x)
            return r

        def issuperset(self, other):
            for x in other:
                if x not in self:
                    return False
            return True

        def __eq__(self, other):
            return len(self) == len(other) and self.issuperset(other)

        def __repr__(self):
            return "NdSet(%r)" % (self.items,)

        def __class_getitem__(cls, item):
            return cls                      # set[str] in annotations evaluated at run time

    def _is_sym(x):
        with NoTracing():
            return isinstance(x, AnySymbolicStr)

    class _FlatMatch:
        """match object whose group texts are flat symbolic strings (slices with symbolic bounds crash CrossHair's ord())"""

        def __init__(self, m):
            self._m = m

        def group(self, *a):
            r = self._m.group(*a)
            if isinstance(r, tuple):
                return tuple(flatten(x) if x is not None else None for x in r)
            return flatten(r) if r is not None else None

        def groups(self, *a):
            return tuple(flatten(x) if x is not None else None for x in self._m.groups(*a))

        def __getattr__(self, n):
            return getattr(self._m, n)

    # relib explores alternation-inside-repeat incompletely when a later alternative of an EARLIER iteration is needed
    # (it reported "no match" for  \((?:[^()]|\\[()])+\)  on  (?:\(x)  ). The one internal regex of pregex with that shape is
    # rewritten to the equivalent form that tries the escaped parenthesis first (same language; the body can never consume an
    # unescaped parenthesis, so the match found is the same). The equivalence is part of the trusted base and is exercised by
    # the per-path concolic self-validation (a wrong type inference changes the emitted text).
    _REWRITE = {
        r"(?:(?<!\\)\()(?:[^\(\)]|\\(?:\(|\)))+(?:(?<!\\)\))": r"(?:(?<!\\)\()(?:\\(?:\(|\))|[^\(\)])+(?:(?<!\\)\))",
    }

    def _rw(pattern):
        return _REWRITE.get(pattern, pattern)

    class ReShim:
        """`re` as seen by pregex.core.pre / pregex.core.classes. Concrete subjects go to the real `re`. Symbolic subjects use
        CrossHair's model of re (relib, with the fixes above) for single matches; findall / sub / subn / split are rebuilt on
        finditer (relib realises findall, and its subn re-searches the remaining slice, losing look-behind context)."""

        def __getattr__(self, name):
            return getattr(re, name)

        def compile(self, pattern, flags=0):
            if _is_sym(pattern):
                pattern = flatten(pattern)      # literals in harness code are symbolic-typed but concrete: no fork
            if not _is_sym(pattern):
                return re.compile(pattern, flags)
            # symbolic pattern text: re.compile's verdict = the real parser's verdict + the look-behind width rule
            tree = sp.parse(pattern, flags)
            _widths(tree)
            return _CompiledStub()

        def finditer(self, pattern, string, flags=0):
            if not _is_sym(string):
                return re.finditer(pattern, string, flags)
            return (_FlatMatch(m) for m in re.finditer(pattern, string, flags))

        def findall(self, pattern, string, flags=0):
            if not _is_sym(string):
                return re.findall(pattern, string, flags)
            rx = re.compile(pattern, flags)
            if rx.groups:
                raise NotImplementedError("findall shim: pattern with groups")
            return [flatten(m.group(0)) for m in re.finditer(pattern, string, flags)]

        def split(self, pattern, string, maxsplit=0, flags=0):
            if not _is_sym(string):
                return re.split(pattern, string, maxsplit=maxsplit, flags=flags)
            rx = re.compile(pattern, flags)
            if rx.groups or maxsplit:
                raise NotImplementedError("split shim")
            out, pos = [], 0
            for m in re.finditer(pattern, string, flags):
                out.append(flatten(string[pos:m.start()]))
                pos = m.end()
            out.append(flatten(string[pos:]))
            return out

        def sub(self, pattern, repl, string, count=0, flags=0):
            return self.subn(pattern, repl, string, count, flags)[0]

        def subn(self, pattern, repl, string, count=0, flags=0):
            # -> re.subn -> compiled pattern -> p_subn below (one implementation for both entry points)
            return re.subn(pattern, repl, string, count=count, flags=flags)

    # ---- the same rebuilt operations at the level of compiled patterns: code that precompiles its internal regexes
    #      (`from re import compile`, module-level `X = re.compile(..)`) reaches re.Pattern.sub / findall / split / finditer
    #      directly, and module-level re.sub(..) etc. end there as well. Concrete subjects keep CrossHair's stock patch.
    PR = core._PATCH_REGISTRATIONS
    stock = {n: PR[getattr(re.Pattern, n)] for n in ("finditer", "findall", "split", "sub", "subn")}
    _rwcache = {}

    def _rwp(patt):
        with NoTracing():
            src = patt.pattern
            if not isinstance(src, str) or src not in _REWRITE:
                return patt
            key = (src, patt.flags)
            if key not in _rwcache:
                _rwcache[key] = re.compile(_REWRITE[src], patt.flags)
            return _rwcache[key]

    def _real(name, self, *a):
        # concrete subject: the real C method, untraced (the stock patches re-enter the patched method for concrete subjects)
        with NoTracing():
            return getattr(re.Pattern, name)(self, *[realize(x) for x in a])

    def p_finditer(self, string, *a):
        if not _is_sym(string):
            return _real("finditer", self, string, *a)
        return (_FlatMatch(m) for m in stock["finditer"](self, string, *a))

    def p_findall(self, string, *a):
        if not _is_sym(string):
            return _real("findall", self, string, *a)
        with NoTracing():
            ng = self.groups
        if ng:
            raise NotImplementedError("findall: pattern with groups")
        return [flatten(m.group(0)) for m in stock["finditer"](self, string, *a)]

    def p_split(self, string, maxsplit=0):
        if not _is_sym(string):
            return _real("split", self, string, maxsplit)
        with NoTracing():
            ng = self.groups
        if ng or maxsplit:
            raise NotImplementedError("split: groups / maxsplit")
        out, pos = [], 0
        for m in stock["finditer"](self, string):
            out.append(flatten(string[pos:m.start()]))
            pos = m.end()
        out.append(flatten(string[pos:]))
        return out

    def p_subn(self, repl, string, count=0):
        if os.environ.get('SYMX_RELIB_SUB'):
            return stock["subn"](self, repl, string, count)
        with NoTracing():           # (the builtin callable() is patched to realise its argument)
            is_fn = not isinstance(repl, (str, AnySymbolicStr))
        if not _is_sym(string) and (is_fn or not _is_sym(repl)):
            return _real("subn", self, repl, string, count)
        # symbolic subject, or a symbolic replacement text spliced into a concrete subject (group renaming)
        out, pos, n = "", 0, 0
        for m in p_finditer(_rwp(self), string):
            if count and n >= count:
                break
            if is_fn:
                r = repl(_FlatMatch(m))
            elif chr(92) not in repl:
                r = repl
            elif repl == chr(92) * 2:
                r = chr(92)
            else:
                raise NotImplementedError("sub: template %r" % (repl,))
            out = out + string[pos:m.start()] + r
            pos = m.end()
            n += 1
        out = out + string[pos:]
        return flatten(out), n

    def p_sub(self, repl, string, count=0):
        return p_subn(self, repl, string, count)[0]

    PR[re.Pattern.finditer] = p_finditer
    PR[re.Pattern.findall] = p_findall
    PR[re.Pattern.split] = p_split
    PR[re.Pattern.subn] = p_subn
    PR[re.Pattern.sub] = p_sub

    # re.compile of a SYMBOLIC pattern text (the fixed-width probe of look-behind assertions): the real parser's verdict plus
    # the look-behind width rule, instead of realising the text
    stock_compile = PR[re._compile]

    def p_compile(pattern, flags=0, *a):
        if _is_sym(pattern):
            pattern = flatten(pattern)
        if not _is_sym(pattern):
            return stock_compile(pattern, flags, *a)
        fl = flags
        with NoTracing():
            if isinstance(fl, re.RegexFlag):
                fl = fl.value
        tree = sp.parse(pattern, realize(fl))
        _widths(tree)
        return _CompiledStub()
    PR[re._compile] = p_compile

    shim = ReShim()
    # every module-level name of the two modules that is bound to the `re` module (`import re as _re`, `import re`, ...)
    # is rebound to the shim; a module that imports single functions (`from re import compile`) keeps CrossHair's stock model
    for mod in (pre, classes):
        for nm, val in list(vars(mod).items()):
            if val is re:
                setattr(mod, nm, shim)
    classes.set = NdSet

    P = pre.Pregex
    orig_escape = getattr(P, "_Pregex__escape", None)
    if orig_escape is not None:
        def esc(pattern):
            return flatten(orig_escape(pattern))
        P._Pregex__escape = staticmethod(esc)
    orig_init = P.__init__

    def init(self, pattern="", escape=True):
        with NoTracing():
            sym = isinstance(pattern, AnySymbolicStr)
        if sym and not escape:
            pattern = flatten(pattern)
        orig_init(self, pattern, escape)
    P.__init__ = init

    # repr() of a symbolic string realises it (open-ended enumeration of characters). Pregex.__repr__ is what get_pattern(),
    # print_pattern(), compile() and every exception MESSAGE use; for a pattern with symbolic characters it returns the pattern
    # text itself (no printable-escaping). Consequences, stated: messages of exceptions are not inspected by any harness; the
    # printable export is checked on concrete patterns only (C03 export family).
    orig_repr = P.__repr__

    def sym_repr(self):
        t = str(self)
        if _is_sym(t):
            t = flatten(t)
        if _is_sym(t):
            return t
        return orig_repr(self)
    P.__repr__ = sym_repr


_install()
