# CrossHair extra plugin for the E1 `symx` engine.  Executed by `crosshair check --extra_plugin`.
# Everything lives inside _install(): the plugin namespace is not visible from nested functions.


def _install():
    import os, re, sys
    import crosshair.core as core
    from crosshair.core import register_patch, realize, with_realized_args
    from crosshair.tracers import NoTracing, ResumedTracing, is_tracing
    from crosshair.statespace import context_statespace
    from crosshair.libimpl import relib
    from crosshair.libimpl.builtinslib import AnySymbolicStr, LazyIntSymbolicStr, SymbolicInt
    import re._parser as sp

    # ---- 1. relib: IGNORECASE mask of a literal must escape the literal ---------------------------
    def unicode_ignorecase_mask(cp):
        mask = relib._UNICODE_IGNORECASE_MASKS.get(cp)
        if mask is None:
            chars = relib.caseable_chars()
            matches = re.compile(re.escape(chr(cp)), re.IGNORECASE).findall(chars)
            cps = [ord(c) for c in matches]
            if cp not in cps:
                cps.append(cp)
            mask = relib.CharMask(sorted(cps))
            relib._UNICODE_IGNORECASE_MASKS[cp] = mask
        return mask
    relib.unicode_ignorecase_mask = unicode_ignorecase_mask

    # ---- 2. CPython's regex parser: set membership / hashing realises symbolic characters -------------
    sp.DIGITS = tuple("0123456789")
    sp.OCTDIGITS = tuple("01234567")
    sp.HEXDIGITS = tuple("0123456789abcdefABCDEF")
    sp.ASCIILETTERS = tuple("abcdefghijklmnopqrstuvwxyzABCDEFGHIJKLMNOPQRSTUVWXYZ")
    sp.WHITESPACE = tuple(" \t\n\r\v\f")

    def _uniq(items):
        out = []
        for it in items:
            dup = False
            for o in out:
                if o == it:
                    dup = True
                    break
            if not dup:
                out.append(it)
        return out
    sp._uniq = _uniq

    # ---- 3. format(): do not realise symbolic ints / objects that format as str(obj) -------------------
    from crosshair.libimpl import builtinslib as bl
    from crosshair.util import CrossHairValue
    orig_format = core._PATCH_REGISTRATIONS[format]

    def fmt(obj, format_spec=""):
        with NoTracing():
            spec_ok = (not isinstance(format_spec, AnySymbolicStr)) and format_spec == ""
            symint = spec_ok and isinstance(obj, SymbolicInt)
            plain = (spec_ok and not symint and not isinstance(obj, CrossHairValue)
                     and not isinstance(obj, (str, int, float, bytes, complex, tuple, list, dict, set, frozenset, type(None)))
                     and type(obj).__format__ is object.__format__)
        if symint:
            return obj.__repr__()
        if plain:
            return str(obj)
        return orig_format(obj, format_spec)
    core._PATCH_REGISTRATIONS[format] = fmt

    # ---- 4. flat representation of symbolic text -----------------------------------------------------
    def flatten(s):
        """identity on the value of a (symbolic) string: same characters, stored as a flat list of code points"""
        with NoTracing():
            sym = isinstance(s, AnySymbolicStr)
        if not sym:
            return s
        n = realize(len(s))
        cps = []
        for i in range(n):
            c = s[i]
            with NoTracing():
                csym = isinstance(c, AnySymbolicStr)
            cps.append(ord(c) if csym else ord(c))
        with NoTracing():
            allc = all(isinstance(x, int) and not isinstance(x, CrossHairValue) for x in cps)
            if allc:
                return "".join(map(chr, cps))
            return LazyIntSymbolicStr(cps)

    # ---- 5. pregex modules: _re shim (findall realises), flattening of pattern text ---------------------
    import pregex.core.pre as pre
    import pregex.core.classes as classes

    class ReShim:
        def __getattr__(self, name):
            return getattr(re, name)

        def findall(self, pattern, string, flags=0):
            rx = re.compile(pattern, flags)
            if rx.groups:
                raise NotImplementedError("findall shim: pattern with groups")
            return [flatten(m.group(0)) for m in re.finditer(pattern, string, flags)]
    shim = ReShim()
    pre._re = shim
    classes._re = shim

    P = pre.Pregex
    orig_escape = P._Pregex__escape

    def esc(pattern):
        return flatten(orig_escape(pattern))
    P._Pregex__escape = staticmethod(esc)
    orig_init = P.__init__

    def init(self, pattern="", escape=True):
        with NoTracing():
            sym = isinstance(pattern, AnySymbolicStr)
        if sym and not escape:
            pattern = flatten(pattern)
        orig_init(self, pattern, escape)
    P.__init__ = init


_install()
