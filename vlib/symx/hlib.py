"""Runtime library of the E1 harnesses (imported inside the CrossHair process).

Everything here must stay symbolic-execution friendly: no hashing of symbolic values, no C-level
functions on them. The oracle compares the *real parser's* reading of the emitted text with its
reading of a fully parenthesised reference text built from the same symbolic characters, after a
normalisation that (i) splices flag-less non-capturing groups and (ii) re-applies the parser's own two
alternation rewrites (common-prefix factoring, single-character alternatives -> set)."""
import os
import re
import re._parser as sp

from pregex.core.pre import Pregex
from pregex.core.classes import *          # noqa
from pregex.core.tokens import *           # noqa
from pregex.core.operators import *        # noqa
from pregex.core.quantifiers import *      # noqa
from pregex.core.groups import *           # noqa
from pregex.core.assertions import *       # noqa
from pregex.core.exceptions import *       # noqa
from pregex.meta.essentials import *       # noqa
import pregex.core.exceptions as _pex

FLAGS = re.MULTILINE | re.DOTALL
SPECIAL = "\\.^$*+?{}[]|()"
PREGEX_EXC = tuple(getattr(_pex, n) for n in dir(_pex) if n.endswith("Exception") and isinstance(getattr(_pex, n), type))


def esc(s):
    """reference escaping of a plain string: a backslash before each regex metacharacter, nothing else"""
    out = ""
    for c in s:
        if c in SPECIAL:
            out = out + "\\" + c
        else:
            out = out + c
    return out


def assemble(parts, args):
    """parts: list of str | int (index of a symbolic string argument) -> reference text"""
    out = ""
    for p in parts:
        if isinstance(p, int):
            out = out + esc(args[p])
        else:
            out = out + p
    return out


def _uniq(items):
    out = []
    for it in items:
        dup = False
        for o in out:
            if o == it:
                dup = True
                break
        if not dup:
            out.append(it)
    return out


def _concrete(x):
    try:
        from crosshair.tracers import NoTracing, is_tracing
        from crosshair.util import CrossHairValue
    except Exception:
        return True
    if not is_tracing():
        return True
    with NoTracing():
        if isinstance(x, tuple):
            return not any(isinstance(y, CrossHairValue) for y in x)
        return not isinstance(x, CrossHairValue)


class INSet:
    """members of a character class: a set. Two classes are structurally equal when their members agree up to order (the
    order follows set iteration order, i.e. the hash seed, in pregex); members are compared with ==, which also works for
    members holding symbolic code points"""

    def __init__(self, items):
        self.items = list(items)

    def __eq__(self, other):
        if not isinstance(other, INSet) or len(self.items) != len(other.items):
            return False
        rest = list(other.items)
        for it in self.items:
            found = -1
            for k, jt in enumerate(rest):
                if it == jt:
                    found = k
                    break
            if found < 0:
                return False
            del rest[found]
        return True

    def __ne__(self, other):
        return not self.__eq__(other)

    __hash__ = None

    def __repr__(self):
        return "INSet(%r)" % (self.items,)


def norm_seq(sub):
    out = []
    for op, av in sub:
        if op is sp.SUBPATTERN:
            g, af, df, p = av
            inner = norm_seq(p)
            if g is None and af == 0 and df == 0:
                out.extend(inner)
            else:
                out.append(("SUBPATTERN", g, af, df, inner))
        elif op is sp.BRANCH:
            out.extend(norm_branch([norm_seq(p) for p in av[1]]))
        elif op in (sp.MAX_REPEAT, sp.MIN_REPEAT):
            mn, mx, p = av
            out.append((str(op), mn, mx, norm_seq(p)))
        elif op in (sp.ASSERT, sp.ASSERT_NOT):
            out.append((str(op), av[0], norm_seq(av[1])))
        elif op is sp.IN:
            items = [(str(o), a) for o, a in av]
            # a class is a set: the order of its concrete members (which follows set iteration order, i.e. the hash seed, in
            # pregex) is not part of the structure; members with symbolic content keep their relative order, in front
            out.append(("IN", INSet(items)))
        elif op is sp.GROUPREF_EXISTS:
            g, yes, no = av
            out.append((str(op), g, norm_seq(yes), norm_seq(no) if no is not None else None))
        else:
            out.append((str(op), av if not isinstance(av, sp.SubPattern) else norm_seq(av)))
    return out


def norm_branch(items):
    """the parser's two alternation rewrites, on normalised alternatives"""
    if len(items) == 1:
        return items[0]
    prefix = []
    while True:
        first = None
        ok = True
        for it in items:
            if not it:
                ok = False
                break
            if first is None:
                first = it[0]
            elif not (it[0] == first):
                ok = False
                break
        if not ok:
            break
        for it in items:
            del it[0]
        prefix.append(first)
    charset = []
    allsingle = True
    for it in items:
        if len(it) != 1:
            allsingle = False
            break
        op = it[0][0]
        if op == "LITERAL":
            charset.append(("LITERAL", it[0][1]))
        elif op == "IN" and not any(x[0] == "NEGATE" for x in it[0][1].items):
            charset.extend(it[0][1].items)
        else:
            allsingle = False
            break
    if allsingle:
        cs = _uniq(charset)
        if len(cs) == 1 and cs[0][0] == "LITERAL":
            return prefix + [("LITERAL", cs[0][1])]
        return prefix + [("IN", INSet(cs))]
    return prefix + [("BRANCH", items)]


def ptree(text):
    return norm_seq(sp.parse(text, FLAGS))


def quant_tree(n, m, greedy, body):
    """normalised tree the documentation gives for the quantifier {n,m} (m None = unbounded) on a non-empty repeatable body"""
    if m is not None and m == 0:
        return []
    if n == 1 and m is not None and m == 1:
        return list(body)
    mx = sp.MAXREPEAT if m is None else m
    lazy = (not greedy) and not (m is not None and n == m)
    return [("MIN_REPEAT" if lazy else "MAX_REPEAT", n, mx, list(body))]


def bad_bounds(n, m):
    return (n < 0) or (m is not None and (m < 0 or m < n))


def check_lookbehind_widths(sub):
    """re.compile's extra verdict on a parsed pattern: look-behinds must have a fixed width"""
    for op, av in sub:
        if op in (sp.ASSERT, sp.ASSERT_NOT):
            d, p = av
            if d < 0:
                lo, hi = p.getwidth()
                if lo != hi:
                    raise re.error("look-behind requires fixed-width pattern")
            check_lookbehind_widths(p)
        elif op is sp.SUBPATTERN:
            check_lookbehind_widths(av[3])
        elif op is sp.BRANCH:
            for p in av[1]:
                check_lookbehind_widths(p)
        elif op in (sp.MAX_REPEAT, sp.MIN_REPEAT):
            check_lookbehind_widths(av[2])
        elif op is sp.GROUPREF_EXISTS:
            check_lookbehind_widths(av[1])
            if av[2] is not None:
                check_lookbehind_widths(av[2])


# ---------------------------------------------------------------------------------------------------
# concolic self-validation: at the end of a path, one model of the path condition is extracted WITHOUT
# forking, the construction is re-run on those concrete arguments with tracing off, and the concrete
# outcome must equal the symbolic outcome evaluated in that model.

_STATS = {"paths": 0, "mismatch": []}


def _report():
    import sys
    sys.stderr.write("\nSYMX-SELFCHECKED-PATHS %d\n" % _STATS["paths"])
    for m in _STATS["mismatch"][:5]:
        sys.stderr.write("SYMX-SELFCHECK-MISMATCH %s\n" % m)


import atexit
atexit.register(_report)


def _cps(x):
    """code points of a (symbolic) string as a list of int / SymbolicInt, tracing on"""
    return [ord(c) for c in x]


def selfcheck(case, build, args, outcome):
    try:
        from crosshair.tracers import NoTracing, is_tracing
        from crosshair.statespace import context_statespace
        from crosshair.libimpl.builtinslib import SymbolicInt, AnySymbolicStr, SymbolicBool
        import z3
    except Exception:
        return
    if not is_tracing():
        return
    prepared = []
    for a in args:
        if isinstance(a, str):
            prepared.append(("s", _cps(a)))
        else:
            prepared.append(("v", a))
    okind, oval = outcome
    if okind == "ok":
        oprep = _cps(oval)
    else:
        oprep = None
    with NoTracing():
        space = context_statespace()
        solver = space.solver
        solver.push()
        try:
            if str(solver.check()) != "sat":
                return
            m = solver.model()

            def ev(v):
                if isinstance(v, (SymbolicInt, SymbolicBool)):
                    r = m.eval(v.var, model_completion=True)
                    if z3.is_bool(r):
                        return z3.is_true(r)
                    return r.as_long()
                if hasattr(v, "var"):
                    return None
                return v
            cargs = []
            for kind, v in prepared:
                if kind == "s":
                    cargs.append("".join(chr(ev(c)) for c in v))
                else:
                    x = ev(v)
                    cargs.append(x)
            if any(a is None and k == "v" and hasattr(v, "var") for (k, v), a in zip(prepared, cargs)):
                return
            want = ("ok", "".join(chr(ev(c)) for c in oprep)) if okind == "ok" else (okind, oval)
        finally:
            solver.pop()
        try:
            p = build(*cargs)
            got = ("ok", str(p))
        except RecursionError:
            got = ("exc", "RecursionError")
        except Exception as e:
            got = ("exc", type(e).__name__)
        _STATS["paths"] += 1
        if got != want and got[0] == "ok" and want[0] == "ok" and _order_free(got[1]) == _order_free(want[1]):
            return          # same text up to the order of class members (set iteration order differs between the two runs)
        if got != want:
            _STATS["mismatch"].append("%s args=%r symbolic=%r concrete=%r" % (case, cargs, want, got))
            raise SelfCheckMismatch("%s args=%r symbolic=%r concrete=%r" % (case, cargs, want, got))


def _order_free(text):
    """the parser's tree of a pattern text with the members of every character class sorted"""
    def walk(x):
        if isinstance(x, sp.SubPattern):
            return [walk(y) for y in x]
        if isinstance(x, tuple) and len(x) == 2 and x[0] is sp.IN:
            return ("IN", sorted(repr(walk(y)) for y in x[1]))
        if isinstance(x, (tuple, list)):
            return [walk(y) for y in x]
        return str(x)
    try:
        return walk(sp.parse(text, FLAGS))
    except Exception:
        return ("unparsed", text)


class SelfCheckMismatch(Exception):
    pass


# ---------------------------------------------------------------------------------------------------
# case runners (the post-condition of a harness is the return value)

def run_tree_case(case, build, ref_parts, expect_exc, args):
    """the emitted text must parse to the same normalised tree as the reference text; or the documented
    exception must be raised"""
    try:
        p = build(*args)
    except PREGEX_EXC as e:
        name = type(e).__name__
        selfcheck(case, build, args, ("exc", name))
        return name == expect_exc
    text = str(p)
    selfcheck(case, build, args, ("ok", text))
    if expect_exc is not None:
        return False
    t = sp.parse(text, FLAGS)
    check_lookbehind_widths(t)
    ref = assemble(ref_parts, args)
    return norm_seq(t) == ptree(ref)


def run_exc_case(case, build, allowed, forbidden, required, args, must_parse=True):
    """exception discipline: only `allowed` pregex exceptions may be raised (and `required`, when given, must be);
    `forbidden` never; any non-pregex exception propagates (and is reported by CrossHair as such); a returned
    pattern must be accepted by the real parser (with the look-behind width rule)"""
    try:
        p = build(*args)
    except PREGEX_EXC as e:
        name = type(e).__name__
        selfcheck(case, build, args, ("exc", name))
        if required is not None:
            return name == required
        return (name in allowed) and (name not in forbidden)
    text = str(p)
    selfcheck(case, build, args, ("ok", text))
    if required is not None:
        return False
    if must_parse:
        t = sp.parse(text, FLAGS)
        check_lookbehind_widths(t)
    return True


# ---------------------------------------------------------------------------------------------------
# E3: the matching / splitting wrappers against direct use of re on the emitted text

def pv(x, name):
    """protected accessor, when the tree under test has it"""
    return getattr(x, name)() if hasattr(x, name) else None


def direct(p, src):
    """what re finds: [(text, start, end, group spans, {name: group number})] under MULTILINE | DOTALL"""
    rx = re.compile(str(p), FLAGS)
    out = []
    for m in rx.finditer(src):
        out.append((m.group(0), m.start(), m.end(), [m.span(k) for k in range(1, rx.groups + 1)], [m.group(k) for k in range(1, rx.groups + 1)]))
    return out, dict(rx.groupindex)


class FakeFile:
    def __init__(self, text):
        self.text = text

    def read(self):
        return self.text

    def __enter__(self):
        return self

    def __exit__(self, *a):
        return False


def fake_open_factory(path, content, log, real_open=None):
    def fake_open(file=None, mode="r", encoding=None, *a, **k):
        try:
            name = os.fspath(file)
        except TypeError:
            name = file
        if isinstance(name, str) and os.path.isabs(name) and real_open is not None:
            return real_open(file, mode, *a, encoding=encoding, **k)     # not the library reading its input (tooling, linecache)
        log.append((name, mode, encoding))
        if name != path:
            raise FileNotFoundError(file)
        return FakeFile(content)
    return fake_open


class fake_fs:
    """file-system stub for is_path=True: the relative path `path` holds `content` (possibly symbolic). Installed as the
    module global `open` of pregex.core.pre and as builtins.open / io.open (pathlib reads through io.open), so the stub is
    hit whichever way the library opens the file; every other relative path does not exist"""

    def __init__(self, path, content, log):
        self.args = (path, content, log)

    def __enter__(self):
        import builtins, io
        import pregex.core.pre as pm
        self.saved = (builtins.open, io.open, pm.__dict__.get("open", None))
        f = fake_open_factory(*self.args, real_open=self.saved[0])
        pm.open = f
        builtins.open = f
        io.open = f
        return self

    def __exit__(self, *a):
        import builtins, io
        import pregex.core.pre as pm
        builtins.open, io.open = self.saved[0], self.saved[1]
        if self.saved[2] is None:
            pm.__dict__.pop("open", None)
        else:
            pm.open = self.saved[2]
        return False


def concrete_call(f, *args):
    """realise small symbolic integers (the solver enumerates their values, one path each) and run f natively:
    used where the data are concrete and only the choice of operations is symbolic"""
    try:
        from crosshair.core import realize
        from crosshair.tracers import NoTracing, is_tracing
    except Exception:
        return f(*args)
    if not is_tracing():
        return f(*args)
    vals = [realize(a) for a in args]
    with NoTracing():
        return f(*vals)


# ---------------------------------------------------------------------------------------------------
# class membership with a symbolic candidate code point (C06 / C07 under symbolic argument characters)

class NotAClass(Exception):
    pass


def class_member(text, c):
    """does the one-character pattern `text` (read by the real parser) match code point c?
    Returns None where the class text contains a shorthand and c is outside the shorthand's specified ASCII core."""
    t = sp.parse(text, FLAGS)
    if len(t) != 1:
        raise NotAClass("not a one-character pattern")
    op, av = t[0]
    if op is sp.LITERAL:
        return c == av
    if op is sp.NOT_LITERAL:
        return c != av
    if op is sp.ANY:
        return True
    if op is not sp.IN:
        raise NotAClass(str(op))
    neg = False
    hit = False
    for o, a in av:
        if o is sp.NEGATE:
            neg = True
        elif o is sp.LITERAL:
            if c == a:
                hit = True
        elif o is sp.RANGE:
            if a[0] <= c and c <= a[1]:
                hit = True
        elif o is sp.CATEGORY:
            # shorthands arise from simplification (AnyBetween('0', '9') is emitted as \\d). Their ASCII core is decided; what
            # only the Unicode-aware shorthand adds (and \\x1c-\\x1f for \\s) is left unspecified by C06: None
            core = {sp.CATEGORY_DIGIT: lambda k: 48 <= k and k <= 57,
                    sp.CATEGORY_WORD: lambda k: (48 <= k and k <= 57) or (65 <= k and k <= 90) or (97 <= k and k <= 122) or k == 95,
                    sp.CATEGORY_SPACE: lambda k: (9 <= k and k <= 13) or k == 32}
            nots = {sp.CATEGORY_NOT_DIGIT: sp.CATEGORY_DIGIT, sp.CATEGORY_NOT_WORD: sp.CATEGORY_WORD, sp.CATEGORY_NOT_SPACE: sp.CATEGORY_SPACE}
            if c >= 128 or (28 <= c and c <= 31):
                return None
            if a in core:
                if core[a](c):
                    hit = True
            elif a in nots:
                if not core[nots[a]](c):
                    hit = True
            else:
                raise NotAClass("category %s" % a)
        else:
            raise NotAClass(str(o))
    return (not hit) if neg else hit


def member_ok(text, c, want):
    """class_member agrees with the specification, or the code point is one C06 leaves unspecified"""
    r = class_member(text, c)
    return r is None or r == want
