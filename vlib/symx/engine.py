"""E1 `symx` driver: generates harness modules from DSL expressions with symbolic holes, runs CrossHair on each
harness (one subprocess per harness), and follows every non-confirmed outcome up on the concrete counterexample."""
import os, re, shutil, sys, tempfile, time, json
from concurrent.futures import ThreadPoolExecutor
from .. import dsl, progs, common
from . import runner

MARK = re.compile(r"\x00SYM(\d+)\x00")


def subst(e, values):
    """replace ('sym'/'psym', i, n) holes by concrete literals"""
    if isinstance(e, tuple):
        if e and e[0] == "sym":
            return ("lit", values[e[1]])
        if e and e[0] == "psym":
            return ("pre", values[e[1]])
        return tuple(subst(x, values) for x in e)
    if isinstance(e, list):
        return [subst(x, values) for x in e]
    return e


def holes(e, acc=None):
    acc = {} if acc is None else acc
    if isinstance(e, tuple):
        if e and e[0] in ("sym", "psym"):
            acc[e[1]] = e[2]
        else:
            for x in e:
                holes(x, acc)
    elif isinstance(e, list):
        for x in e:
            holes(x, acc)
    return acc


def tree_case(expr, spelling="class", name=None):
    """harness description for: parse(emitted text) == parse(reference text), symbolic string holes"""
    hs = holes(expr)
    try:
        rf = dsl.ref(expr, progs.leaf_text)
        parts = []
        for i, p in enumerate(MARK.split(rf.rx)):
            if i % 2 == 1:
                parts.append(int(p))
            elif p:
                parts.append(p)
        expect = None
    except dsl.Expected as x:
        parts, expect = [], x.excname
    except dsl.Unspecified:
        return None
    src = dsl.src(expr, spelling)
    params = ["A%d" % i for i in sorted(hs)]
    return {"kind": "tree", "expr": expr, "spelling": spelling, "src": src, "params": [(p, "str") for p in params],
            "pre": ["len(A%d) == %d" % (i, hs[i]) for i in sorted(hs)], "ref_parts": parts, "expect_exc": expect,
            "name": name or "%s |%s|" % (src, ",".join(str(hs[i]) for i in sorted(hs)))}


def exc_case(src, params, pre, allowed=(), forbidden=(), required=None, name=None, must_parse=True, expr=None):
    """harness description for exception discipline / validity of the emitted text.
    params: [(name, type)], pre: list of precondition strings"""
    return {"kind": "exc", "src": src, "params": list(params), "pre": list(pre), "allowed": list(allowed),
            "forbidden": list(forbidden), "required": required, "name": name or src, "must_parse": must_parse, "expr": expr}


def raw_case(body_src, params, pre, name, helpers="", concrete=()):
    """free-form harness: body_src is the function body (must `return` the post-condition).
    concrete: argument tuples outside the symbolic precondition (e.g. the empty source, which CrossHair's model of re
    mishandles) that are executed concretely with the real re instead"""
    return {"kind": "raw", "body": body_src, "params": list(params), "pre": list(pre), "name": name, "helpers": helpers,
            "concrete": [tuple(x) for x in concrete]}


def write_module(cases, path):
    lines = ["from vlib.symx.hlib import *", "from typing import Optional as Opt, Union", ""]
    for i, c in enumerate(cases):
        fn = "case_%d" % i
        c["fn"] = fn
        ps = ", ".join("%s: %s" % (n, t) for n, t in c["params"])
        an = ", ".join(n for n, _ in c["params"])
        doc = "".join("    pre: %s\n" % p for p in c["pre"])
        if c["kind"] == "raw":
            if c.get("helpers"):
                lines.append(c["helpers"])
            lines.append("def %s(%s) -> bool:\n    \"\"\"\n%s    post: _\n    \"\"\"" % (fn, ps, doc))
            for l in c["body"].splitlines():
                lines.append("    " + l)
            lines.append("")
            continue
        lines.append("_build_%d = lambda %s: %s" % (i, an, c["src"]))
        lines.append("def %s(%s) -> bool:\n    \"\"\"\n%s    post: _\n    \"\"\"" % (fn, ps, doc))
        tup = "(%s,)" % an if an else "()"
        if c["kind"] == "tree":
            lines.append("    return run_tree_case(%r, _build_%d, %r, %r, %s)" % (fn, i, c["ref_parts"], c["expect_exc"], tup))
        else:
            lines.append("    return run_exc_case(%r, _build_%d, %r, %r, %r, %s, must_parse=%r)" %
                         (fn, i, c["allowed"], c["forbidden"], c["required"], tup, c.get("must_parse", True)))
        lines.append("")
    with open(path, "w") as f:
        f.write("\n".join(lines) + "\n")


CALL = re.compile(r"when calling (case_\d+\(.*?\))(?: \(which returns| \||$)", re.S)


def parse_counterexample(msg, fn):
    """arguments of the reported call: the shortest prefix 'fn(...)' after 'when calling' that evaluates (messages may
    repeat the call, and exception texts may contain parentheses)"""
    env = {fn: lambda *a, **k: (a, k), "__builtins__": {"float": float, "True": True, "False": False, "None": None}}
    for m in re.finditer(r"when calling (?=%s\()" % re.escape(fn), msg):
        start = m.end()
        pos = start
        while True:
            pos = msg.find(")", pos)
            if pos < 0:
                break
            pos += 1
            try:
                return eval(msg[start:pos], env)
            except Exception:
                continue
    return None


def run_cases(cases, per_condition_timeout=90, nproc=None, workdir=None, keep=False):
    """-> list of raw CrossHair outcomes aligned with cases"""
    nproc = nproc or common.NPROC
    tmp = workdir or tempfile.mkdtemp(prefix="vsymx_")
    try:
        mod = os.path.join(tmp, "harness_%d.py" % os.getpid())
        write_module(cases, mod)
        def one(c):
            return runner.run_crosshair(mod, c["fn"], per_condition_timeout=per_condition_timeout, repo_src=common.REPO_SRC)
        # longest first is unknown; simple parallel map
        with ThreadPoolExecutor(max_workers=nproc) as ex:
            outs = list(ex.map(one, cases))
        return outs
    finally:
        if not keep and workdir is None:
            shutil.rmtree(tmp, ignore_errors=True)


def follow_up_tree(c, args, L=4):
    """concrete follow-up of a refuted tree harness: real code vs reference on the counterexample's arguments,
    all texts up to L (E2c). -> result fields"""
    values = {i: a for i, a in enumerate(args)}
    e = subst(c["expr"], values)
    rs = progs.check_program(e, L, spellings=(c["spelling"],), mode="E1")
    bad = [r for r in rs if r["status"] == "violated"]
    if bad:
        r = bad[0]
        return {"status": "violated", "detail": "[symbolic run found arguments %r] %s" % (args, r["detail"]),
                "script": r["script"], "inputs": dict(r.get("inputs", {}), args=list(args))}
    inc = [r for r in rs if r["status"] not in ("discharged",)]
    if inc:
        return {"status": "inconclusive", "detail": "counterexample %r: follow-up %s %s" % (args, inc[0]["status"], inc[0].get("detail", ""))}
    return {"status": "inconclusive",
            "detail": "structural difference at arguments %r is semantically benign up to L=%d; remaining paths of this harness not explored" % (args, L)}


def follow_up_exc(c, args):
    """concrete follow-up of a refuted exception-discipline harness"""
    an = [n for n, _ in c["params"]]
    call = "(lambda %s: %s)(*%r)" % (", ".join(an), c["src"], tuple(args))
    script = (
        "allowed, forbidden, required = %r, %r, %r\n"
        "try:\n    p = %s\n    got = ('ok', str(p))\nexcept RecursionError:\n    got = ('exc', 'RecursionError')\nexcept Exception as e:\n    got = ('exc', type(e).__name__)\n"
        "PRE = [n for n in dir(__import__('pregex.core.exceptions', fromlist=['x'])) if n.endswith('Exception')]\n"
        "if got[0] == 'exc':\n"
        "    if got[1] not in PRE: REPRODUCED(%r + ' raised ' + got[1] + ' (not a pregex exception)')\n"
        "    if required is not None and got[1] != required: REPRODUCED(%r + ' raised ' + got[1] + '; documented: ' + required)\n"
        "    if required is None and (got[1] not in allowed or got[1] in forbidden): REPRODUCED(%r + ' raised ' + got[1] + '; allowed here: ' + repr(allowed))\n"
        "    NOT_REPRODUCED()\n"
        "if required is not None: REPRODUCED(%r + ' returned ' + repr(got[1]) + '; documented: ' + required)\n"
        "if %r:\n"
        "    try:\n        re.compile(got[1], FLAGS)\n    except re.error as e:\n        REPRODUCED(%r + ' emits ' + repr(got[1]) + ' which re rejects: ' + str(e))\n"
        "NOT_REPRODUCED()\n") % (c["allowed"], c["forbidden"], c["required"], call, call, call, call, call, c.get("must_parse", True), call)
    rc, out = common.run_script(script)
    if rc != 1:
        return {"status": "inconclusive",
                "detail": "counterexample %r of the symbolic run does not reproduce on the real code (artifact of the symbolic model of re); "
                          "remaining paths of this harness not explored" % (tuple(args),)}
    return {"status": "violated", "detail": "%s with arguments %r" % (c["src"], tuple(args)), "script": script,
            "inputs": {"src": c["src"], "args": list(args), "text": ""}}


def raw_script(c, args):
    """replay of a free-form harness: the same body as an ordinary function on the counterexample's arguments, plain re"""
    an = ", ".join(n for n, _ in c["params"])
    body = "\n".join("    " + l for l in c["body"].splitlines())
    return ("import sys\nsys.path.insert(0, %r)\nfrom vlib.symx.hlib import *\nfrom typing import Optional as Opt\n%s\ndef _f(%s):\n%s\n"
            "try:\n    _r = _f(*%r)\nexcept RecursionError:\n    REPRODUCED('RecursionError')\nexcept Exception as e:\n    REPRODUCED('%%s: %%s' %% (type(e).__name__, e))\n"
            "if _r is not True: REPRODUCED(%r + ' fails for arguments ' + %r)\nNOT_REPRODUCED()\n") % (
                common.VERIF, c.get("helpers", ""), an, body, tuple(args), c["name"], repr(tuple(args)))


def follow_up_raw(c, args, o):
    script = raw_script(c, args)
    rc, out = common.run_script(script)
    if rc != 1:
        return {"status": "inconclusive",
                "detail": "counterexample %r of the symbolic run does not reproduce on the real code with the real re (artifact of the symbolic model); "
                          "remaining paths not explored" % (tuple(args),)}
    return {"status": "violated", "detail": "%s fails for arguments %r: %s" % (c["name"], tuple(args), out.strip()[-200:]), "script": script,
            "inputs": {"args": list(args), "text": ""}}


def concrete_points(c):
    """run the body of a raw harness on its listed concrete argument tuples (plain Python, real re, one process)"""
    pts = c.get("concrete", [])
    if not pts:
        return []
    an = ", ".join(n for n, _ in c["params"])
    body = "\n".join("    " + l for l in c["body"].splitlines())
    script = ("import sys\nsys.path.insert(0, %r)\nfrom vlib.symx.hlib import *\nfrom typing import Optional as Opt\n%s\ndef _f(%s):\n%s\n"
              "for _a in %r:\n    try:\n        _r = _f(*_a)\n    except RecursionError:\n        REPRODUCED('RecursionError for %%r' %% (_a,))\n"
              "    except Exception as e:\n        REPRODUCED('%%s: %%s for %%r' %% (type(e).__name__, e, _a))\n"
              "    if _r is not True: REPRODUCED(%r + ' fails for arguments %%r' %% (_a,))\nNOT_REPRODUCED()\n") % (
                  common.VERIF, c.get("helpers", ""), an, body, list(pts), c["name"])
    rc, o = 0, ""
    for hs in (0, 1, 2, 3):                 # the same points under several interpreter hash seeds
        rc, o = common.run_script(script, hs)
        if rc != 0:
            break
    nm = c["name"] + " [%d concrete points, real re, hash seeds 0-3]" % len(pts)
    if rc == 1:
        return [{"name": nm, "status": "violated", "detail": o.strip()[-300:], "script": script, "hashseed": [0, 1, 2, 3], "inputs": {"points": len(pts), "text": ""}}]
    if rc == 0:
        return [{"name": nm, "status": "discharged", "detail": "concrete execution of the harness body with the real re"}]
    return [{"name": nm, "status": "error", "detail": "script error: " + o[-300:]}]


def to_results(cases, outs, L=4):
    res = []
    with ThreadPoolExecutor(max_workers=common.NPROC) as ex:
        for rs in ex.map(concrete_points, [c for c in cases if c.get("concrete")]):
            res.extend(rs)
    for c, o in zip(cases, outs):
        r = {"name": c["name"], "solver_s": o["wall_s"],
             "sample": {"harness": c["name"], "verdict": o["verdict"], "paths": o["iterations"], "selfchecked_paths": o.get("selfchecked_paths"),
                        "wall_s": o["wall_s"]},
             "paths": o["iterations"] or 0}
        if o.get("mismatches") or "SelfCheckMismatch" in o.get("message", ""):
            r.update(status="error", detail="concolic self-validation mismatch: %s" % (o.get("mismatches") or o["message"])[:600])
        elif o["verdict"] == "confirmed":
            r["status"] = "discharged"
            if o["realized"]:
                r["sample"]["realized"] = o["realized"][:5]
        elif o["verdict"] == "refuted":
            ce = parse_counterexample(o["message"], c["fn"])
            if ce is None:
                r.update(status="error", detail="could not parse counterexample: %s" % o["message"][:300])
            else:
                args = ce[0]
                if c["kind"] == "tree":
                    r.update(follow_up_tree(c, args, L))
                elif c["kind"] == "exc":
                    r.update(follow_up_exc(c, args))
                else:
                    r.update(follow_up_raw(c, args, o))
                r["detail"] = (r.get("detail", "") + " [crosshair: %s]" % o["message"][:160])
        elif o["verdict"] in ("unknown", "timeout", "precondition"):
            r.update(status="inconclusive", detail="crosshair: %s after %s paths (%s)" % (o["verdict"], o["iterations"], o["message"][:120]))
        else:
            r.update(status="error", detail="crosshair failed: %s" % o["message"][:600])
        res.append(r)
    return res
