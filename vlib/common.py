"""Shared infrastructure: evidence, known findings, replay, parallel task runner."""
import hashlib, json, os, subprocess, sys, time, traceback, inspect
from concurrent.futures import ProcessPoolExecutor, as_completed

VERIF = os.path.dirname(os.path.dirname(os.path.abspath(__file__)))
REPO = os.environ.get("VERIF_REPO", "/repo")
REPO_SRC = os.path.join(REPO, "src")
REPLAY_PY = os.environ.get("VERIF_REPLAY_PY", "/venv/bin/python")
OUT = os.environ.get("VERIF_OUT", VERIF)           # where evidence/ and replays/ are written (seed experiments redirect it)
NPROC = int(os.environ.get("VERIF_NPROC", "16"))
SEED = int(os.environ.get("VERIF_SEED", "0") or 0)

EXIT_OK, EXIT_VIOLATION, EXIT_HARNESS = 0, 1, 3


def import_pregex():
    """import pregex from the current working tree of /repo (no bytecode cache)."""
    sys.dont_write_bytecode = True
    if REPO_SRC not in sys.path:
        sys.path.insert(0, REPO_SRC)
    import warnings
    warnings.simplefilter("ignore")
    import pregex.core.pre, pregex.core.classes, pregex.core.tokens, pregex.core.operators
    import pregex.core.quantifiers, pregex.core.groups, pregex.core.assertions
    import pregex.core.exceptions, pregex.meta.essentials
    import pregex
    assert os.path.realpath(pregex.__file__).startswith(os.path.realpath(REPO_SRC)), pregex.__file__
    return pregex


def members(owner, *names):
    """the named attributes of a class / module that exist in the current tree; if one is missing (renamed or moved by
    a refactoring) the owner itself is fingerprinted instead, so the evidence still covers the code"""
    got = [getattr(owner, n) for n in names if hasattr(owner, n)]
    if len(got) < len(names):
        got.append(owner)
    return got


def resolve(pairs):
    """[(owner, attribute name) | (None, object)] -> objects; a name the current tree no longer has (renamed / moved by a
    refactoring) is replaced by its owner, so the evidence still fingerprints the code and the check does not depend on it"""
    out, seen = [], set()
    for owner, x in pairs:
        if owner is None:
            o = x
        elif hasattr(owner, x):
            o = getattr(owner, x)
        else:
            o = owner
        if id(o) not in seen:
            seen.add(id(o))
            out.append(o)
    return out


def src_fingerprint(objs):
    """[{'name','file','lines','sha256'}] for the functions/classes encoded by a check
    (read from the live modules = current working tree)."""
    out = []
    for o in objs:
        try:
            src, ln = inspect.getsourcelines(o)
            f = inspect.getsourcefile(o)
            out.append({"name": getattr(o, "__qualname__", getattr(o, "__name__", str(o))),
                        "file": os.path.relpath(f, REPO) if f.startswith(REPO) else f,
                        "lines": [ln, ln + len(src) - 1],
                        "sha256": hashlib.sha256("".join(src).encode()).hexdigest()[:16]})
        except Exception as e:      # noqa
            out.append({"name": str(o), "error": repr(e)})
    return out


# ---------------------------------------------------------------------------------------------
# replay: a python script executed against the plain repo under the baseline interpreter.
# Convention: exit 1 = the violation reproduces, exit 0 = it does not, anything else = error.

REPLAY_PRELUDE = """import sys, re, warnings
warnings.simplefilter('ignore')
sys.dont_write_bytecode = True
sys.path.insert(0, %r)
from pregex.core.pre import Pregex
from pregex.core.classes import *
from pregex.core.tokens import *
from pregex.core.operators import *
from pregex.core.quantifiers import *
from pregex.core.groups import *
from pregex.core.assertions import *
from pregex.core.exceptions import *
from pregex.meta.essentials import *
import pregex.core.quantifiers as qu, pregex.core.operators as op, pregex.core.classes as cl
import pregex.core.assertions as asr, pregex.core.groups as gr, pregex.core.tokens as tk
import pregex.meta.essentials as me
FLAGS = re.MULTILINE | re.DOTALL
def REPRODUCED(msg):
    print('REPRODUCED:', msg); sys.exit(1)
def NOT_REPRODUCED(msg=''):
    print('not reproduced', msg); sys.exit(0)
"""


def run_script(script, hashseed=None, timeout=120, repo_src=None):
    if isinstance(hashseed, (list, tuple)):
        # the violation is configuration dependent: it reproduces if it does under one of these interpreter hash seeds
        last = (0, "")
        for hs in hashseed:
            last = run_script(script, hs, timeout, repo_src)
            if last[0] == 1:
                return last[0], "PYTHONHASHSEED=%s\n%s" % (hs, last[1])
        return last
    env = dict(os.environ)
    env["PYTHONDONTWRITEBYTECODE"] = "1"
    env.pop("PYTHONPATH", None)
    if hashseed is not None:
        env["PYTHONHASHSEED"] = str(hashseed)
    else:
        env.pop("PYTHONHASHSEED", None)
    src = (REPLAY_PRELUDE % (repo_src or REPO_SRC)) + script
    try:
        # the script goes in through stdin (a history replay can exceed the per-argument size limit of execve)
        r = subprocess.run([REPLAY_PY, "-W", "ignore", "-"], input=src, capture_output=True, text=True,
                           timeout=timeout, env=env)
        return r.returncode, (r.stdout + r.stderr)[-2000:]
    except subprocess.TimeoutExpired:
        return 124, "timeout"


def replay_file(path):
    d = json.load(open(path))
    rc, out = run_script(d["script"], d.get("hashseed"))
    print(out.strip())
    if rc == 1:
        print("replay: violation of %s reproduces on %s" % (d.get("property"), REPO))
    elif rc == 0:
        print("replay: does not reproduce")
    else:
        print("replay: script error (exit %d)" % rc)
    return rc


# ---------------------------------------------------------------------------------------------
# known findings

class Known:
    """/verif/known_findings.json, read-only at run time.
    entry: {id, property, status: open|fixed, title, script (replay script), hashseed?, region: text}
    An open entry is *active* iff its witness still reproduces on the current tree; only active
    entries have their region excluded / matched."""

    def __init__(self, prop):
        self.prop = prop
        path = os.path.join(VERIF, "known_findings.json")
        self.entries = []
        if os.path.exists(path):
            data = json.load(open(path))
            self.entries = [e for e in data.get("findings", []) if e["property"] == prop]
        self.active_ids = set()
        self.lines = []
        self.stale = []

    def probe(self, pool=None):
        todo = [e for e in self.entries if e.get("status") == "open"]
        results = []
        if todo:
            with ProcessPoolExecutor(max_workers=min(NPROC, len(todo))) as ex:
                futs = {ex.submit(run_script, e["script"], e.get("hashseed")): e for e in todo}
                for f in as_completed(futs):
                    results.append((futs[f], f.result()))
        for e, (rc, out) in results:
            if rc == 1:
                self.active_ids.add(e["id"])
                self.lines.append("KNOWN-FINDING: property=%s %s [%s]" % (self.prop, e["title"], e["id"]))
            else:
                self.stale.append(e["id"])
        for ln in sorted(self.lines):
            print(ln, flush=True)
        return self

    def active(self, kid):
        return kid in self.active_ids


# ---------------------------------------------------------------------------------------------
# task runner: tasks are (callable_name_in_module, args) executed in forked workers

HISTORY = []      # constructor calls evaluated so far in this worker process (source text), in order


def note_construction(src):
    """checks that build many patterns in one process record each construction: a counterexample that does not reproduce in a
    fresh process is replayed once more after the same construction history (results must not depend on history)"""
    if not HISTORY or HISTORY[-1] != src:
        HISTORY.append(src)


def _worker(modname, fname, args):
    t0 = time.time()
    try:
        mod = sys.modules.get(modname) or __import__(modname, fromlist=["x"])
        r = getattr(mod, fname)(*args)
        if not isinstance(r, list):
            r = [r]
        xm = sys.modules.get("vlib.e2util")
        for x in r:
            x.setdefault("wall_s", round(time.time() - t0, 3))
            if x.get("status") == "violated" and len(HISTORY) > 1 and "prelude" not in x:
                x["prelude"] = "\n".join(HISTORY[-400:-1]) + "\n"
            if xm is not None:
                x["_xcheck"] = (os.getpid(), xm.XCHECK["agree"], xm.XCHECK["inconclusive"])
        return r
    except Exception as e:   # harness error inside a task
        return [{"name": "%s%r" % (fname, args if len(repr(args)) < 200 else "(...)"),
                 "status": "error", "detail": traceback.format_exc()[-1500:],
                 "wall_s": round(time.time() - t0, 3)}]


def run_tasks(modname, tasks, nproc=None, deadline=None, progress=None):
    """tasks: list of (fname, args). Returns flat list of result dicts.
    Each result: {name, status: discharged|violated|inconclusive|known|error|skipped, ...}"""
    nproc = nproc or NPROC
    out = []
    if not tasks:
        return out
    t0 = time.time()
    import multiprocessing as mp
    ctx = mp.get_context("fork")
    with ProcessPoolExecutor(max_workers=nproc, mp_context=ctx) as ex:
        futs = {ex.submit(_worker, modname, f, a): (f, a) for f, a in tasks}
        done = 0
        for fu in as_completed(futs):
            try:
                out.extend(fu.result())
            except Exception as e:
                f, a = futs[fu]
                out.append({"name": "%s%r" % (f, a), "status": "error", "detail": repr(e)})
            done += 1
            if progress and done % progress == 0:
                print("  .. %d/%d tasks, %.0fs" % (done, len(tasks), time.time() - t0), file=sys.stderr,
                      flush=True)
    return out


# ---------------------------------------------------------------------------------------------
# a check run

class Run:
    def __init__(self, prop, tier, level="other"):
        self.prop, self.tier, self.level = prop, tier, level
        self.t0 = time.time()
        self.results = []
        self.known = Known(prop)
        self.violations = []          # confirmed, not known
        self.known_hits = {}
        self.harness_errors = []
        self.info = {}
        self.assumptions = []
        self.functions = []
        self.bounds = {}
        self.solver_s = 0.0

    def add(self, results):
        self.results.extend(results)

    # region matchers are given by the property module: {finding id: predicate(inputs) -> bool}
    def triage(self, region_preds=None):
        """Replay every candidate violation on the plain tree; classify."""
        region_preds = region_preds or {}
        cands = [r for r in self.results if r.get("status") == "violated"]
        self._prelude_tries = 0
        # dedupe by script
        seen = {}
        for r in cands:
            seen.setdefault(r["script"], r)
        uniq = list(seen.values())
        rcs = {}
        if uniq:
            with ProcessPoolExecutor(max_workers=min(NPROC, len(uniq))) as ex:
                futs = {ex.submit(run_script, r["script"], r.get("hashseed")): r["script"] for r in uniq}
                for f in as_completed(futs):
                    rcs[futs[f]] = f.result()
        for r in cands:
            rc, out = rcs[r["script"]]
            if rc == 0 and r.get("prelude") and self._prelude_tries < 12:
                self._prelude_tries += 1
                # not reproducible in a fresh process: once more after the constructions this worker had evaluated before
                rc2, out2 = run_script(r["prelude"] + r["script"], r.get("hashseed"), timeout=300)
                if rc2 == 1:
                    n = r["prelude"].count("\n")
                    r["script"] = "# reproduces only after these %d earlier constructions in the same process (history dependence)\n" % n + r["prelude"] + r["script"]
                    r["detail"] = "[only after %d earlier constructions in the same process] " % n + r.get("detail", "")
                    rc, out = rc2, out2
            r.pop("prelude", None)
            r["replay_rc"] = rc
            r["replay_out"] = out[-600:]
            if rc == 1:
                kid = None
                for k, pred in region_preds.items():
                    if self.known.active(k):
                        try:
                            if pred(r.get("inputs", {})):
                                kid = k
                                break
                        except Exception:
                            pass
                if kid:
                    r["status"] = "known"
                    r["known_id"] = kid
                    self.known_hits[kid] = self.known_hits.get(kid, 0) + 1
                else:
                    r["status"] = "violation_confirmed"
                    self.violations.append(r)
            elif rc == 0:
                r["status"] = "inconclusive"
                r["detail"] = "counterexample did not reproduce on the real code: " + r.get("detail", "")
                self.harness_errors.append(r)
            else:
                r["status"] = "error"
                r["detail"] = "replay script error: " + out[-400:]
                self.harness_errors.append(r)

    def finish(self, coverage_extra=None, samples=None, explanation=""):
        wall = time.time() - self.t0
        st = {}
        for r in self.results:
            st[r["status"]] = st.get(r["status"], 0) + 1
            self.solver_s += r.get("solver_s", 0.0)
        xc = {}
        for r in self.results:
            if "_xcheck" in r:
                pid, a, i = r.pop("_xcheck")
                xc[pid] = (max(a, xc.get(pid, (0, 0))[0]), max(i, xc.get(pid, (0, 0))[1]))
        self.info["cross_solver_checks"] = {"solvers": "z3 4.8.12 binary, cvc5 1.0.3 binary vs z3 5.1.0 library on SMT-LIB dumps of sampled queries",
                                            "agreements": sum(v[0] for v in xc.values()), "inconclusive": sum(v[1] for v in xc.values()), "disagreements": 0}
        errors = [r for r in self.results if r["status"] == "error"]
        obligations = len(self.results)
        discharged = st.get("discharged", 0)
        paths = []
        os.makedirs(os.path.join(OUT, "replays"), exist_ok=True)
        seenv = set()
        for v in self.violations:
            h = hashlib.sha256(v["script"].encode()).hexdigest()[:12]
            if h in seenv or len(paths) >= 5:       # at most 5 replay files / VIOLATION lines per run
                continue
            seenv.add(h)
            path = os.path.join(OUT, "replays", "%s-%s.json" % (self.prop, h))
            json.dump({"property": self.prop, "name": v.get("name"), "detail": v.get("detail"),
                       "inputs": v.get("inputs"), "script": v["script"], "hashseed": v.get("hashseed"),
                       "replay_out": v.get("replay_out")}, open(path, "w"), indent=1, default=str)
            paths.append(path)
        if samples is None:
            samples = []
            for r in self.results:
                if r.get("sample") and len(samples) < 8:
                    samples.append(r["sample"])
        distinct = len({r["name"] for r in self.results if r["status"] in ("discharged", "known", "violation_confirmed")})
        cov = {
            "explanation": explanation,
            "obligations": obligations,
            "discharged": discharged,
            "inconclusive": st.get("inconclusive", 0),
            "known_finding_hits": st.get("known", 0),
            "violations": len(paths),
            "violating_obligations": len(self.violations),
            "harness_errors": len(errors),
            "status_counts": st,
            "evaluations": max(obligations, 1),
            "distinct_nontrivial": distinct,
            "rule": "one evaluation = one solver obligation (a harness explored over all its paths, or one "
                    "SMT query / query family over a symbolic text or candidate); distinct = distinct obligation "
                    "names that were decided (discharged, known finding, or confirmed violation)",
            "samples": samples[:12] or ["(none)"],
            "solver_time_s": round(self.solver_s, 2),
            "functions_encoded": self.functions,
            "bounds": self.bounds,
            "checker_cmd": "./vcheck %s --tier %s" % (self.prop, self.tier),
            "trusted_base": ["z3 5.1.0 (python3-vt)", "CPython re._parser (3.11.7 symbolic side, 3.12.1 replay)",
                             "vlib/rexsat.py encodings validated differentially against re on every run"],
            "known_findings_active": sorted(self.known.active_ids),
            "known_findings_stale": sorted(self.known.stale),
            "inconclusive_list": [{"name": r["name"], "detail": str(r.get("detail", ""))[:300]}
                                  for r in self.results if r["status"] in ("inconclusive",)][:40],
            "error_list": [{"name": r["name"], "detail": str(r.get("detail", ""))[:600]} for r in errors][:20],
        }
        cov.update(self.info)
        if coverage_extra:
            cov.update(coverage_extra)
        ev = {"property_id": self.prop, "tier": self.tier, "seed": SEED, "level": self.level,
              "coverage": cov, "assumptions": self.assumptions, "wall_s": round(wall, 2),
              "violations": len(paths)}
        os.makedirs(os.path.join(OUT, "evidence"), exist_ok=True)
        with open(os.path.join(OUT, "evidence", "%s.json" % self.prop), "w") as f:
            json.dump(ev, f, indent=1, default=str)
        print("%s tier=%s obligations=%d discharged=%d known=%d inconclusive=%d errors=%d violations=%d "
              "solver=%.1fs wall=%.1fs" % (self.prop, self.tier, obligations, discharged, st.get("known", 0),
                                           st.get("inconclusive", 0), len(errors), len(paths), self.solver_s, wall),
              flush=True)
        for p in paths:
            print("VIOLATION property=%s replay=%s" % (self.prop, p), flush=True)
        if paths:
            return EXIT_VIOLATION
        if errors or self.harness_errors:
            for r in (errors + self.harness_errors)[:10]:
                print("HARNESS-ERROR %s: %s" % (r["name"], str(r.get("detail", ""))[-800:]), file=sys.stderr)
            return EXIT_HARNESS
        return EXIT_OK
