"""E2 `rexsat`: SMT encodings of CPython `re` matching semantics for a *concrete* pattern and a
*symbolic* text.

The pattern text (emitted by the real pregex code) is parsed by the real `re._parser`; the parse
tree is lowered to a small AST; two encoders build z3 terms over a text of N symbolic characters:

* `Rel`   relational:  M(node, i, j)  <=>  node can match text[i:j] inside this text
* `Exact` priority  :  result of CPython's backtracking matcher started at position s
                       (ok, end, capture spans), `finditer` scan included

Characters are abstracted to the minterms of all character sets occurring in the patterns and in the
specification (`charset.Alphabet`): texts over minterm indices are equivalent to texts over code
points for every test that is a union of minterms, so the solver ranges over ALL of Unicode.
"""
import re
import z3

try:                                   # CPython >= 3.11
    import re._parser as _sp
    import re._constants as _sc
except ImportError:                    # pragma: no cover
    import sre_parse as _sp
    import sre_constants as _sc

from . import charset as cs
from .charset import ISet

FLAGS = re.MULTILINE | re.DOTALL       # pregex's flags


class Unsupported(Exception):
    pass


# ----------------------------------------------------------------------------------------------
# constant-folding helpers (python bool = constant)

def AND(*xs):
    out = []
    for x in xs:
        if x is False:
            return False
        if x is True:
            continue
        out.append(x)
    if not out:
        return True
    return out[0] if len(out) == 1 else z3.And(*out)


def OR(*xs):
    out = []
    for x in xs:
        if x is True:
            return True
        if x is False:
            continue
        out.append(x)
    if not out:
        return False
    return out[0] if len(out) == 1 else z3.Or(*out)


def NOT(x):
    if x is True:
        return False
    if x is False:
        return True
    return z3.Not(x)


def _same(a, b):
    if isinstance(a, (bool, int)) and isinstance(b, (bool, int)):
        return a == b
    if isinstance(a, (bool, int)) or isinstance(b, (bool, int)):
        return False
    return a.eq(b)


def ITE(c, a, b):
    if c is True:
        return a
    if c is False:
        return b
    if _same(a, b):
        return a
    if isinstance(a, bool) and isinstance(b, bool):
        return c if a else z3.Not(c)
    if isinstance(a, bool):
        return OR(c, b) if a else AND(NOT(c), b)
    if isinstance(b, bool):
        return OR(NOT(c), a) if b else AND(c, a)
    if isinstance(a, int):
        a = z3.IntVal(a)
    if isinstance(b, int):
        b = z3.IntVal(b)
    return z3.If(c, a, b)


def EQ(a, b):
    if isinstance(a, (bool, int)) and isinstance(b, (bool, int)):
        return a == b
    if isinstance(a, bool):
        return b if a else NOT(b)
    if isinstance(b, bool):
        return a if b else NOT(a)
    return a == b


def IFF(a, b):
    return EQ(a, b)


def B(x):
    """python bool -> z3"""
    return z3.BoolVal(x) if isinstance(x, bool) else x


# ----------------------------------------------------------------------------------------------
# AST

class Node:
    __slots__ = ("kind", "a", "b", "c", "d", "uid", "wmin", "wmax", "hascap")
    _n = 0

    def __init__(self, kind, a=None, b=None, c=None, d=None):
        self.kind, self.a, self.b, self.c, self.d = kind, a, b, c, d
        Node._n += 1
        self.uid = Node._n
        self.wmin = self.wmax = None
        self.hascap = False

    def __repr__(self):
        return "%s(%s)" % (self.kind, ",".join(repr(x) for x in (self.a, self.b, self.c, self.d)
                                               if x is not None))


class Pat:
    def __init__(self, pattern, root, ngroups, names, sets, flags):
        self.pattern, self.root, self.ngroups, self.names = pattern, root, ngroups, names
        self.sets = sets            # all ISets used
        self.flags = flags
        self.uses_word = False
        self.uses_nl = False
        self.has_bref = False


_NL = ISet.of("\n")


def _esc(c):
    return "\\U%08x" % c


def _in_to_text(items):
    out = []
    neg = False
    for op, av in items:
        if op is _sc.NEGATE:
            neg = True
        elif op is _sc.LITERAL:
            out.append(_esc(av))
        elif op is _sc.RANGE:
            out.append(_esc(av[0]) + "-" + _esc(av[1]))
        elif op is _sc.CATEGORY:
            out.append({_sc.CATEGORY_DIGIT: r"\d", _sc.CATEGORY_NOT_DIGIT: r"\D",
                        _sc.CATEGORY_SPACE: r"\s", _sc.CATEGORY_NOT_SPACE: r"\S",
                        _sc.CATEGORY_WORD: r"\w", _sc.CATEGORY_NOT_WORD: r"\W"}[av])
        else:
            raise Unsupported("class item %r" % (op,))
    return "[" + ("^" if neg else "") + "".join(out) + "]"


def _cat(av):
    t = {_sc.CATEGORY_DIGIT: (cs.U_DIGIT, False), _sc.CATEGORY_NOT_DIGIT: (cs.U_DIGIT, True),
         _sc.CATEGORY_SPACE: (cs.U_SPACE, False), _sc.CATEGORY_NOT_SPACE: (cs.U_SPACE, True),
         _sc.CATEGORY_WORD: (cs.U_WORD, False), _sc.CATEGORY_NOT_WORD: (cs.U_WORD, True)}.get(av)
    if t is None:
        raise Unsupported("category %r" % (av,))
    s = t[0]()
    return ~s if t[1] else s


def in_to_iset(items):
    acc = cs.EMPTY
    neg = False
    for op, av in items:
        if op is _sc.NEGATE:
            neg = True
        elif op is _sc.LITERAL:
            acc = acc | ISet.of(av)
        elif op is _sc.RANGE:
            acc = acc | ISet.rng(av[0], av[1])
        elif op is _sc.CATEGORY:
            acc = acc | _cat(av)
        else:
            raise Unsupported("class item %r" % (op,))
    return ~acc if neg else acc


class _Conv:
    def __init__(self, flags):
        self.flags = flags
        self.sets = []
        self.uses_word = False
        self.uses_nl = False
        self.has_bref = False

    def cset(self, s):
        self.sets.append(s)
        return Node("chr", s)

    def seq(self, sub, ic):
        items = [self.node(op, av, ic) for op, av in sub]
        if len(items) == 1:
            return items[0]
        return Node("seq", items)

    def node(self, op, av, ic):
        M = bool(self.flags & re.MULTILINE)
        S = bool(self.flags & re.DOTALL)
        if op is _sc.LITERAL:
            if ic:
                return self.cset(cs.set_of_regex("(?i:%s)" % _esc(av)))
            return self.cset(ISet.of(av))
        if op is _sc.NOT_LITERAL:
            if ic:
                return self.cset(cs.set_of_regex("(?i:[^%s])" % _esc(av)))
            return self.cset(~ISet.of(av))
        if op is _sc.ANY:
            return self.cset(cs.FULL if S else ~_NL)
        if op is _sc.IN:
            if ic:
                return self.cset(cs.set_of_regex("(?i:%s)" % _in_to_text(av)))
            return self.cset(in_to_iset(av))
        if op is _sc.BRANCH:
            return Node("alt", [self.seq(p, ic) for p in av[1]])
        if op is _sc.SUBPATTERN:
            gid, addf, delf, p = av
            other = (addf | delf) & ~re.IGNORECASE
            if other & ~re.UNICODE:
                raise Unsupported("scoped flags other than i")
            ic2 = ic
            if addf & re.IGNORECASE:
                ic2 = True
            if delf & re.IGNORECASE:
                ic2 = False
            inner = self.seq(p, ic2)
            if gid is None:
                return inner
            return Node("grp", gid, inner)
        if op in (_sc.MAX_REPEAT, _sc.MIN_REPEAT):
            mn, mx, p = av
            if mx == _sc.MAXREPEAT:
                mx = None
            return Node("rep", mn, mx, op is _sc.MAX_REPEAT, self.seq(p, ic))
        if op is _sc.AT:
            k = {_sc.AT_BEGINNING: "bol" if M else "bos", _sc.AT_BEGINNING_STRING: "bos",
                 _sc.AT_END: "eol" if M else "eod", _sc.AT_END_STRING: "eos",
                 _sc.AT_BOUNDARY: "wb", _sc.AT_NON_BOUNDARY: "nwb"}.get(av)
            if k is None:
                raise Unsupported("at %r" % (av,))
            if k in ("wb", "nwb"):
                self.uses_word = True
            if k in ("bol", "eol", "eod"):
                self.uses_nl = True
            return Node("at", k)
        if op in (_sc.ASSERT, _sc.ASSERT_NOT):
            d, p = av
            return Node("look", d, op is _sc.ASSERT_NOT, self.seq(p, ic))
        if op is _sc.GROUPREF:
            self.has_bref = True
            if ic:
                raise Unsupported("case-insensitive backreference")
            return Node("bref", av)
        if op is _sc.GROUPREF_EXISTS:
            gid, yes, no = av
            return Node("cond", gid, self.seq(yes, ic),
                        self.seq(no, ic) if no is not None else Node("seq", []))
        raise Unsupported("op %r" % (op,))


INF = None


def _wadd(a, b):
    return None if a is None or b is None else a + b


def _wmax(a, b):
    return None if a is None or b is None else max(a, b)


def _annot(n):
    k = n.kind
    if k == "chr":
        n.wmin, n.wmax = 1, 1
    elif k in ("at", "look"):
        if k == "look":
            _annot(n.c)
            if n.c.hascap:
                n.hascap = True
        n.wmin, n.wmax = 0, 0
    elif k == "seq":
        lo, hi = 0, 0
        for x in n.a:
            _annot(x)
            lo += x.wmin
            hi = _wadd(hi, x.wmax)
            n.hascap = n.hascap or x.hascap
        n.wmin, n.wmax = lo, hi
    elif k == "alt":
        lo, hi = None, 0
        for x in n.a:
            _annot(x)
            lo = x.wmin if lo is None else min(lo, x.wmin)
            hi = _wmax(hi, x.wmax)
            n.hascap = n.hascap or x.hascap
        n.wmin, n.wmax = lo or 0, hi
    elif k == "rep":
        _annot(n.d)
        n.hascap = n.d.hascap
        n.wmin = n.a * n.d.wmin
        if n.b is None:
            n.wmax = 0 if n.d.wmax == 0 else None
        else:
            n.wmax = None if n.d.wmax is None else n.b * n.d.wmax
    elif k == "grp":
        _annot(n.b)
        n.hascap = True
        n.wmin, n.wmax = n.b.wmin, n.b.wmax
    elif k == "bref":
        n.wmin, n.wmax = 0, None
    elif k == "cond":
        _annot(n.b)
        _annot(n.c)
        n.hascap = n.b.hascap or n.c.hascap
        n.wmin, n.wmax = min(n.b.wmin, n.c.wmin), _wmax(n.b.wmax, n.c.wmax)
    else:
        raise AssertionError(k)


def parse(pattern, flags=FLAGS):
    """Validate with re.compile (so look-behind width etc. are CPython's verdict), then lower."""
    re.compile(pattern, flags)
    st = _sp.parse(pattern, flags)
    gflags = st.state.flags
    if gflags & re.IGNORECASE:
        raise Unsupported("global IGNORECASE")
    cv = _Conv(gflags)
    root = cv.seq(st, False)
    _annot(root)
    p = Pat(pattern, root, st.state.groups - 1, dict(st.state.groupdict), cv.sets, gflags)
    p.uses_word, p.uses_nl, p.has_bref = cv.uses_word, cv.uses_nl, cv.has_bref
    return p


# ----------------------------------------------------------------------------------------------
# problem context: text variables over an alphabet

class Problem:
    _ctr = 0

    def __init__(self, pats, N, extra_sets=(), exclude=None, tag=None):
        sets = []
        uses_word = uses_nl = False
        for p in pats:
            sets.extend(p.sets)
            uses_word = uses_word or p.uses_word
            uses_nl = uses_nl or p.uses_nl
            if p.has_bref:
                raise Unsupported("backreference under alphabet abstraction")
        sets.extend(extra_sets)
        if uses_word:
            sets.append(cs.U_WORD())
        if uses_nl:
            sets.append(_NL)
        self.alpha = cs.Alphabet(sets, exclude=exclude)
        self.N = N
        Problem._ctr += 1
        self.tag = tag or ("t%d" % Problem._ctr)
        self.c = [z3.Int("%s_c%d" % (self.tag, i)) for i in range(N)]
        self._inset = {}
        self.K = self.alpha.K

    def domain(self):
        return [z3.And(ci >= 0, ci < self.K) for ci in self.c]

    def inset(self, i, s):
        """text[i] in s  (False outside the text)."""
        if i < 0 or i >= self.N:
            return False
        key = (i, s)
        r = self._inset.get(key)
        if r is None:
            ks = self.alpha.classes_of(s)
            if len(ks) == 0:
                r = False
            elif len(ks) == self.K:
                r = True
            elif len(ks) <= self.K - len(ks):
                r = OR(*[self.c[i] == k for k in sorted(ks)])
            else:
                r = NOT(OR(*[self.c[i] == k for k in sorted(set(range(self.K)) - ks)]))
            self._inset[key] = r
        return r

    def isword(self, i):
        return self.inset(i, cs.U_WORD())

    def isnl(self, i):
        return self.inset(i, _NL)

    def at(self, kind, i):
        N = self.N
        if kind == "bos":
            return i == 0
        if kind == "eos":
            return i == N
        if kind == "bol":
            return True if i == 0 else self.isnl(i - 1)
        if kind == "eol":
            return True if i == N else self.isnl(i)
        if kind == "eod":
            return True if i == N else (self.isnl(i) if i == N - 1 else False)
        if kind in ("wb", "nwb"):
            if N == 0:
                return False          # CPython (<= 3.13): neither \b nor \B matches in an empty text
            a, b = self.isword(i - 1), self.isword(i)
            diff = NOT(EQ(a, b))
            return diff if kind == "wb" else NOT(diff)
        raise AssertionError(kind)

    def text_of(self, model):
        out = []
        for ci in self.c:
            v = model.eval(ci, model_completion=True).as_long()
            out.append(chr(self.alpha.rep[v]))
        return "".join(out)

    def text_is(self, s):
        """constraint: the symbolic text equals concrete string s (len N)"""
        assert len(s) == self.N
        cons = []
        for i, ch in enumerate(s):
            k = self.alpha.class_of_cp(ord(ch))
            if k is None:
                return False
            cons.append(self.c[i] == k)
        return AND(*cons)


# ----------------------------------------------------------------------------------------------
# relational encoder

class Rel:
    def __init__(self, prob, pat=None):
        self.p = prob
        self.memo = {}
        self.repmemo = {}
        self.pat = pat

    def full(self):
        return self.M(self.pat.root, 0, self.p.N)

    def M(self, n, i, j):
        w = j - i
        if w < n.wmin or (n.wmax is not None and w > n.wmax):
            return False
        key = (n.uid, i, j)
        r = self.memo.get(key)
        if r is None:
            r = self._M(n, i, j)
            if not isinstance(r, bool):
                r = z3.simplify(r)
                if z3.is_true(r):
                    r = True
                elif z3.is_false(r):
                    r = False
            self.memo[key] = r
        return r

    def _M(self, n, i, j):
        k = n.kind
        p = self.p
        if k == "chr":
            return p.inset(i, n.a)
        if k == "at":
            return p.at(n.a, i)
        if k == "seq":
            return self._seq(n, 0, i, j)
        if k == "alt":
            return OR(*[self.M(x, i, j) for x in n.a])
        if k == "grp":
            return self.M(n.b, i, j)
        if k == "rep":
            return self._rep(n, i, j, n.a, n.b)
        if k == "look":
            sub = n.c
            if n.a > 0:
                r = OR(*[self.M(sub, i, e) for e in range(i, p.N + 1)])
            else:
                r = OR(*[self.M(sub, s, i) for s in range(0, i + 1)])
            return NOT(r) if n.b else r
        raise Unsupported("relational encoding of %s" % k)

    def _seq(self, n, idx, i, j):
        items = n.a
        if idx == len(items):
            return i == j
        key = (n.uid, "s", idx, i, j)
        r = self.memo.get(key)
        if r is not None:
            return r
        x = items[idx]
        rmin = sum(y.wmin for y in items[idx + 1:])
        rmax = 0
        for y in items[idx + 1:]:
            rmax = _wadd(rmax, y.wmax)
        alts = []
        for m in range(i, j + 1):
            w1, w2 = m - i, j - m
            if w1 < x.wmin or (x.wmax is not None and w1 > x.wmax):
                continue
            if w2 < rmin or (rmax is not None and w2 > rmax):
                continue
            a = self.M(x, i, m)
            if a is False:
                continue
            alts.append(AND(a, self._seq(n, idx + 1, m, j)))
        r = OR(*alts)
        self.memo[key] = r
        return r

    def _rep(self, n, i, j, mn, mx):
        if mx is not None and mx == 0:
            return i == j and mn == 0
        if mn == 0 and i == j:
            return True
        key = (n.uid, i, j, mn, mx)
        r = self.repmemo.get(key)
        if r is not None:
            return r
        sub = n.d
        alts = []
        for m in range(i, j + 1):
            if m == i and mn == 0:
                continue
            w = m - i
            if w < sub.wmin or (sub.wmax is not None and w > sub.wmax):
                continue
            a = self.M(sub, i, m)
            if a is False:
                continue
            alts.append(AND(a, self._rep(n, m, j, max(mn - 1, 0), None if mx is None else mx - 1)))
        r = OR(*alts)
        self.repmemo[key] = r
        return r


# ----------------------------------------------------------------------------------------------
# exact (priority / backtracking order) encoder

class Res:
    __slots__ = ("ok", "end", "caps")

    def __init__(self, ok, end, caps):
        self.ok, self.end, self.caps = ok, end, caps


def _first(r1, r2):
    """r1 if r1.ok else r2"""
    if r1.ok is True:
        return r1
    if r1.ok is False:
        return r2
    if r2.ok is False:
        return r1
    c = r1.ok
    caps = tuple((ITE(c, a[0], b[0]), ITE(c, a[1], b[1])) for a, b in zip(r1.caps, r2.caps))
    return Res(OR(c, r2.ok), ITE(c, r1.end, r2.end), caps)


def _gate(c, r):
    if c is True:
        return r
    if c is False or r.ok is False:
        return _FAIL
    return Res(AND(c, r.ok), r.end, r.caps)


_FAIL = Res(False, -1, ())


class _K:
    """memoised continuation"""
    __slots__ = ("f", "memo", "uid")
    _n = 0

    def __init__(self, f):
        self.f = f
        self.memo = {}
        _K._n += 1
        self.uid = _K._n

    def __call__(self, pos, caps):
        key = (pos, caps)
        r = self.memo.get(key)
        if r is None:
            r = self.memo[key] = self.f(pos, caps)
        return r


class Exact:
    def __init__(self, prob, pat):
        self.p = prob
        self.pat = pat
        self.rel = Rel(prob)
        self.G = pat.ngroups
        self.nomemo = {}
        self.budget = 400000
        self.calls = 0

    # -- entry points
    def at(self, s, mode="match"):
        """result of pattern.match(text, s) ('match'), with must-advance ('adv'),
        or requiring the match to end at N ('full')."""
        N = self.p.N
        if mode == "match":
            fin = _K(lambda pos, caps: Res(True, pos, caps))
        elif mode == "adv":
            fin = _K(lambda pos, caps: Res(pos != s, pos, caps))
        else:
            fin = _K(lambda pos, caps: Res(pos == N, pos, caps))
        caps0 = tuple((-1, -1) for _ in range(self.G))
        r = self.node(self.pat.root, s, caps0, fin)
        if r.ok is False:
            return Res(False, -1, caps0)
        return r

    def node(self, n, pos, caps, k):
        self.calls += 1
        if self.calls > self.budget:
            raise Unsupported("exact encoding budget exceeded")
        kind = n.kind
        p = self.p
        if kind == "chr":
            if pos >= p.N:
                return _FAIL
            c = p.inset(pos, n.a)
            if c is False:
                return _FAIL
            return _gate(c, k(pos + 1, caps))
        if kind == "seq":
            return self._seq(n.a, 0, pos, caps, k)
        if kind == "alt":
            res = _FAIL
            for x in reversed(n.a):
                r = self.node(x, pos, caps, k)
                res = _first(r, res)
            return res
        if kind == "grp":
            g = n.a - 1
            start = pos

            def kk(p2, c2, g=g, start=start, k=k):
                c3 = c2[:g] + ((start, p2),) + c2[g + 1:]
                return k(p2, c3)
            return self.node(n.b, pos, caps, _K(kk))
        if kind == "rep":
            return self._rep(n, 0, pos, caps, k, None)
        if kind == "at":
            c = p.at(n.a, pos)
            if c is False:
                return _FAIL
            return _gate(c, k(pos, caps))
        if kind == "look":
            if n.c.hascap:
                raise Unsupported("capture group inside look-around")
            sub = n.c
            if n.a > 0:
                c = OR(*[self.rel.M(sub, pos, e) for e in range(pos, p.N + 1)])
            else:
                c = OR(*[self.rel.M(sub, s, pos) for s in range(0, pos + 1)])
            if n.b:
                c = NOT(c)
            if c is False:
                return _FAIL
            return _gate(c, k(pos, caps))
        if kind == "cond":
            g = n.a - 1
            br = n.b if caps[g] != (-1, -1) else n.c
            return self.node(br, pos, caps, k)
        raise Unsupported("exact encoding of %s" % kind)

    def _seq(self, items, idx, pos, caps, k):
        if idx == len(items):
            return k(pos, caps)
        if idx == len(items) - 1:
            return self.node(items[idx], pos, caps, k)
        return self.node(items[idx], pos, caps,
                         _K(lambda p2, c2: self._seq(items, idx + 1, p2, c2, k)))

    def _rep(self, n, count, pos, caps, k, last):
        mn, mx, greedy, sub = n.a, n.b, n.c, n.d
        if mx is None and count > mn:
            count = mn
        key = (n.uid, count, pos, caps, last, k.uid)
        r = self.nomemo.get(key)
        if r is not None:
            return r
        if count < mn:
            r = self.node(sub, pos, caps,
                          _K(lambda p2, c2: self._rep(n, count + 1, p2, c2, k, None)))
        else:
            can_more = (mx is None or count < mx) and pos != last
            if can_more:
                if greedy:
                    more = self.node(sub, pos, caps,
                                     _K(lambda p2, c2: self._rep(n, count + 1, p2, c2, k, pos)))
                    r = more if more.ok is True else _first(more, k(pos, caps))
                else:
                    leave = k(pos, caps)
                    if leave.ok is True:
                        r = leave
                    else:
                        more = self.node(sub, pos, caps,
                                         _K(lambda p2, c2: self._rep(n, count + 1, p2, c2, k, pos)))
                        r = _first(leave, more)
            else:
                r = k(pos, caps)
        self.nomemo[key] = r
        return r

    # -- finditer in canonical per-start form
    def finditer(self):
        """list over s = 0..N of dict(emp, emp_caps, ne, ne_end, ne_caps):
        emp  - finditer yields an empty match at s
        ne   - finditer yields a non-empty match starting at s (end, caps)"""
        N = self.p.N
        can_empty = self.pat.root.wmin == 0
        cur, adv = 0, False          # symbolic scan state: next search position, must-advance flag
        out = []
        G = self.G
        nocaps = tuple((-1, -1) for _ in range(G))
        for s in range(N + 1):
            active = (cur <= s) if isinstance(cur, int) else (cur <= s)
            if isinstance(active, bool) is False:
                active = z3.simplify(active)
                if z3.is_true(active):
                    active = True
                elif z3.is_false(active):
                    active = False
            if active is False:
                out.append(dict(emp=False, emp_caps=nocaps, ne=False, ne_end=-1, ne_caps=nocaps))
                continue
            r1 = self.at(s, "match")
            r2 = self.at(s, "adv") if can_empty else r1
            # first attempt at s: adv mode iff adv and cur == s
            advmode = AND(adv, EQ(cur, s))
            # normal attempt
            n_ok = AND(active, NOT(advmode), r1.ok)
            n_empty = AND(n_ok, EQ(r1.end, s))
            n_nonempty = AND(n_ok, NOT(EQ(r1.end, s)))
            # advance attempt: either first attempt in adv mode, or second attempt after an empty match
            a_try = OR(AND(active, advmode), n_empty)
            a_ok = AND(a_try, r2.ok)
            emp = n_empty
            ne = OR(n_nonempty, a_ok)
            ne_end = ITE(n_nonempty, r1.end, r2.end)
            ne_caps = tuple((ITE(n_nonempty, a[0], b[0]), ITE(n_nonempty, a[1], b[1]))
                            for a, b in zip(r1.caps or nocaps, r2.caps or nocaps))
            out.append(dict(emp=emp, emp_caps=r1.caps or nocaps, ne=ne, ne_end=ne_end, ne_caps=ne_caps))
            # new scan state
            #   non-empty match  -> cur = end, adv = False
            #   empty only       -> cur = s, adv = True   (next start is s+1 anyway: cur = s <= s+1,
            #                                              adv only matters at cur == s which is passed)
            new_cur = ITE(ne, ne_end, ITE(emp, s, cur))
            new_adv = ITE(ne, False, ITE(emp, True, adv))
            cur, adv = new_cur, new_adv
        return out


# ----------------------------------------------------------------------------------------------
# real-engine observations (for replay / differential validation)

def real_finditer(pattern, text, flags=FLAGS):
    rx = re.compile(pattern, flags)
    return [(m.start(), m.end(), tuple(m.span(g) for g in range(1, rx.groups + 1)))
            for m in rx.finditer(text)]


def real_span_matchable(pattern, text, i, j, flags=FLAGS):
    """does the pattern have *some* way to match exactly text[i:j] inside text (relational M)?"""
    rx = re.compile("(?:%s)(?=[\\s\\S]{%d}\\Z)" % (pattern, len(text) - j), flags)
    return rx.match(text, i) is not None


def canon_from_real(pattern, text, flags=FLAGS):
    """canonical per-start form of real finditer"""
    N = len(text)
    rx = re.compile(pattern, flags)
    out = [dict(emp=False, emp_caps=None, ne=False, ne_end=-1, ne_caps=None) for _ in range(N + 1)]
    for m in rx.finditer(text):
        caps = tuple(m.span(g) for g in range(1, rx.groups + 1))
        if m.start() == m.end():
            out[m.start()]["emp"] = True
            out[m.start()]["emp_caps"] = caps
        else:
            out[m.start()]["ne"] = True
            out[m.start()]["ne_end"] = m.end()
            out[m.start()]["ne_caps"] = caps
    return out


def eval_canon(model, canon):
    def ev(x):
        if isinstance(x, bool):
            return x
        if isinstance(x, int):
            return x
        v = model.eval(x, model_completion=True)
        if z3.is_bool(v):
            return z3.is_true(v)
        return v.as_long()
    out = []
    for d in canon:
        e = dict(emp=ev(d["emp"]), ne=ev(d["ne"]))
        e["emp_caps"] = tuple((ev(a), ev(b)) for a, b in d["emp_caps"]) if e["emp"] else None
        e["ne_end"] = ev(d["ne_end"]) if e["ne"] else -1
        e["ne_caps"] = tuple((ev(a), ev(b)) for a, b in d["ne_caps"]) if e["ne"] else None
        out.append(e)
    return out


def canon_differs(c1, c2, groups=True):
    """z3 condition: two symbolic canonical finditer forms differ (same number of groups assumed
    when groups=True)"""
    diffs = []
    for a, b in zip(c1, c2):
        diffs.append(NOT(EQ(a["emp"], b["emp"])))
        diffs.append(NOT(EQ(a["ne"], b["ne"])))
        diffs.append(AND(a["ne"], b["ne"], NOT(EQ(a["ne_end"], b["ne_end"]))))
        if groups:
            for (x0, x1), (y0, y1) in zip(a["ne_caps"], b["ne_caps"]):
                diffs.append(AND(a["ne"], b["ne"], OR(NOT(EQ(x0, y0)), NOT(EQ(x1, y1)))))
            for (x0, x1), (y0, y1) in zip(a["emp_caps"], b["emp_caps"]):
                diffs.append(AND(a["emp"], b["emp"], OR(NOT(EQ(x0, y0)), NOT(EQ(x1, y1)))))
    return OR(*diffs)


# ----------------------------------------------------------------------------------------------
# E2a: native regular languages (z3 RegLan) over the minterm alphabet, unbounded length

_SYMS = "ABCDEFGHIJKLMNOPQRSTUVWXYZabcdefghijklmnopqrstuvwxyz0123456789"


class RegLan:
    def __init__(self, pats, extra_sets=(), exclude=None):
        sets = []
        for p in pats:
            sets.extend(p.sets)
            if p.uses_word or p.uses_nl or p.has_bref:
                raise Unsupported("anchors/backrefs are not regular-language constructs")
        sets.extend(extra_sets)
        self.alpha = cs.Alphabet(sets, exclude=exclude)
        if self.alpha.K > len(_SYMS):
            raise Unsupported("alphabet too large for RegLan symbol map")
        self.sym = [z3.Re(z3.StringVal(_SYMS[k])) for k in range(self.alpha.K)]
        self.memo = {}

    def sigma(self):
        return z3.Union(*self.sym) if len(self.sym) > 1 else self.sym[0]

    def cset(self, s):
        ks = sorted(self.alpha.classes_of(s))
        if not ks:
            return z3.Empty(z3.ReSort(z3.StringSort()))
        xs = [self.sym[k] for k in ks]
        return xs[0] if len(xs) == 1 else z3.Union(*xs)

    def tr(self, n):
        r = self.memo.get(n.uid)
        if r is None:
            r = self.memo[n.uid] = self._tr(n)
        return r

    def _tr(self, n):
        k = n.kind
        eps = z3.Re(z3.StringVal(""))
        if k == "chr":
            return self.cset(n.a)
        if k == "seq":
            xs = [self.tr(x) for x in n.a]
            if not xs:
                return eps
            return xs[0] if len(xs) == 1 else z3.Concat(*xs)
        if k == "alt":
            xs = [self.tr(x) for x in n.a]
            return xs[0] if len(xs) == 1 else z3.Union(*xs)
        if k == "grp":
            return self.tr(n.b)
        if k == "rep":
            sub = self.tr(n.d)
            if n.b is None:
                if n.a == 0:
                    return z3.Star(sub)
                if n.a == 1:
                    return z3.Plus(sub)
                return z3.Concat(z3.Loop(sub, n.a, n.a), z3.Star(sub))
            if n.b == 0:
                return eps
            return z3.Loop(sub, n.a, n.b)
        raise Unsupported("RegLan translation of %s" % k)

    def decode(self, zs):
        """z3 model string over symbols -> text over representatives"""
        return "".join(chr(self.alpha.rep[_SYMS.index(ch)]) for ch in zs)
