"""Evaluation of DSL programs on the real code and semantic comparison with the reference (E2c)."""
import re, time, z3
from . import rexsat as R, charset as cs, common, dsl

_NS = None


def namespace():
    global _NS
    if _NS is None:
        common.import_pregex()
        ns = {}
        exec("from pregex.core.pre import Pregex\nfrom pregex.core.classes import *\nfrom pregex.core.tokens import *\n"
             "from pregex.core.operators import *\nfrom pregex.core.quantifiers import *\nfrom pregex.core.groups import *\n"
             "from pregex.core.assertions import *\nfrom pregex.core.exceptions import *\nfrom pregex.meta.essentials import *\n", ns)
        _NS = ns
    return _NS


_leaf_cache = {}


def leaf_text(src):
    """regex text / width / captures of a real leaf object (parsed by CPython's parser)"""
    r = _leaf_cache.get(src)
    if r is None:
        obj = eval(src, namespace())
        t = str(obj)
        if t == "":
            r = ("", 0, 0, ())
        else:
            P = R.parse(t)
            names = {v: k for k, v in P.names.items()}
            caps = tuple(names.get(g) for g in range(1, P.ngroups + 1))
            r = (t, P.root.wmin, P.root.wmax, caps)
        _leaf_cache[src] = r
    return r


def evaluate(source):
    """-> ('ok', pattern text, object) | ('exc', exception class name, message)"""
    try:
        obj = eval(source, namespace())
        return ("ok", str(obj), obj)
    except RecursionError as e:
        return ("exc", "RecursionError", "")
    except Exception as e:
        return ("exc", type(e).__name__, str(e)[:200])


PREGEX_EXC = ("InvalidArgumentTypeException", "InvalidArgumentValueException", "NotEnoughArgumentsException",
              "InvalidCapturingGroupNameException", "CannotBeRepeatedException", "NonFixedWidthPatternException",
              "EmptyNegativeAssertionException", "CannotBeNegatedException", "CannotBeUnionedException",
              "CannotBeSubtractedException", "EmptyClassException", "InvalidRangeException",
              "GlobalWordCharSubtractionException")


def equiv_query(pat_a, pat_b, L, groups=True, exclude=None):
    """search a text (len <= L) on which finditer (spans and group spans) of two concrete patterns differ.
    -> (verdict, text, solver_s, info)   verdict in unsat|sat|unknown|unsupported"""
    solver_s = 0.0
    try:
        A, Bp = R.parse(pat_a), R.parse(pat_b)
    except R.Unsupported as e:
        return "unsupported", None, 0.0, str(e)
    if groups and A.ngroups != Bp.ngroups:
        groups = False
    for N in range(0, L + 1):
        try:
            prob = R.Problem([A, Bp], N, exclude=exclude)
            ca = R.Exact(prob, A).finditer()
            cb = R.Exact(prob, Bp).finditer()
        except R.Unsupported as e:
            return "unsupported", None, solver_s, str(e)
        diff = R.canon_differs(ca, cb, groups=groups)
        if diff is False:
            continue
        sv = z3.Solver()
        for d in prob.domain():
            sv.add(d)
        sv.add(R.B(diff))
        t1 = time.time()
        r = str(sv.check())
        solver_s += time.time() - t1
        if r in ("sat", "unsat"):
            from . import e2util
            e2util.cross_check(sv, r, 300)
            if e2util.XCHECK["disagree"]:
                raise RuntimeError("solver disagreement on an SMT-LIB dump: %r" % e2util.XCHECK["disagree"][:2])
        if r == "sat":
            return "sat", prob.text_of(sv.model()), solver_s, ""
        if r != "unsat":
            return "unknown", None, solver_s, "N=%d" % N
    return "unsat", None, solver_s, ""


def some_match_text(pat, L):
    """a text on which the pattern has at least one non-empty match or any match"""
    P = R.parse(pat)
    for N in range(0, L + 1):
        prob = R.Problem([P], N)
        c = R.Exact(prob, P).finditer()
        cond = R.OR(*[R.OR(d["emp"], d["ne"]) for d in c])
        if cond is False:
            continue
        sv = z3.Solver()
        for d in prob.domain():
            sv.add(d)
        sv.add(R.B(cond))
        if str(sv.check()) == "sat":
            return prob.text_of(sv.model())
    return None


EQUIV_SCRIPT = (
    "src = %(src)r\nref = %(ref)r\ntext = %(text)r\n"
    "p = eval(src)\n"
    "def fi(pat):\n"
    "    rx = re.compile(pat, FLAGS)\n"
    "    return [(m.span(), tuple(m.span(g) for g in range(1, rx.groups + 1))) for m in rx.finditer(text)]\n"
    "try:\n    got = fi(str(p))\nexcept re.error as e:\n    REPRODUCED('pattern %%r of %%s rejected by re: %%s' %% (str(p), src, e))\n"
    "want = fi(ref)\n"
    "if got != want: REPRODUCED('%%s emits %%r; on %%r finditer gives %%r, fully parenthesised reference %%r gives %%r' %% (src, str(p), text, got, ref, want))\n"
    "NOT_REPRODUCED()\n")


def check_program(e, L, spellings=("class", "method", "operator", "roperator"), mode="C02", outcomes=None):
    """one DSL program: real code (all spellings) vs reference, decided over all texts up to L.
    mode selects which disagreements are this property's business:
      C02/C05/C08/C04: semantic equivalence of the emitted pattern with the reference;
                       exception-vs-pattern disagreements are reported only when mode lists them."""
    name = dsl.src(e, "class")
    t0 = time.time()
    try:
        rf = dsl.ref(e, leaf_text)
        expect = ("ok", rf.rx)
    except dsl.Expected as x:
        expect = ("exc", x.excname)
    except dsl.Unspecified as x:
        return [{"name": name, "status": "skipped", "detail": "unspecified: %s" % x}]
    out = []
    seen_patterns = {}
    work = []
    for sp in spellings:
        if sp == "operator" and not dsl.has_operator_form(e):
            continue
        if sp == "roperator" and e[0] != "exactly":
            continue
        s = dsl.src(e, sp)
        if outcomes is not None and sp == "class":
            # outcomes of the class spelling under several real hash seeds: [(kind, value, seeds)]
            for o in outcomes:
                work.append((sp, s, (o[0], o[1], None) if o[0] == "ok" else (o[0], o[1], ""), list(o[2])))
        else:
            work.append((sp, s, None, None))
    for sp, s, pre_ev, hseeds in work:
        ev = pre_ev if pre_ev is not None else evaluate(s)
        nm = "%s [%s]" % (name, sp) if sp != "class" else name
        if hseeds is not None:
            nm = "%s [seeds %s]" % (nm, ",".join(map(str, hseeds[:4])))
        if ev[0] == "exc":
            if expect[0] == "exc" and expect[1] == ev[1]:
                out.append({"name": nm, "status": "discharged", "detail": "documented exception %s" % ev[1]})
                continue
            # disagreement about raising: property-specific
            res = {"name": nm, "detail": "%s raised %s (%s); reference: %s" % (s, ev[1], ev[2][:80], expect),
                   "inputs": {"src": s, "exc": ev[1], "expect": expect, "text": ""}}
            if ev[1] == "CannotBeRepeatedException" and expect[0] == "ok" and getattr(rf, "unspec_rep", False):
                res["status"] = "skipped"
                res["detail"] += " [repeating an operand that contains an anchor / positive lookaround indirectly: left open by C09]"
            elif _exc_is_business(mode, ev[1], expect):
                res["status"] = "violated"
                res["script"] = ("src = %r\nexpect = %r\ntry:\n    p = eval(src)\n    got = ('ok', str(p))\nexcept RecursionError:\n    got = ('exc', 'RecursionError')\n"
                                 "except Exception as e:\n    got = ('exc', type(e).__name__)\n"
                                 "if got[0] == 'exc' and (expect[0] != 'exc' or expect[1] != got[1]): REPRODUCED('%%s raised %%s; documented outcome: %%s' %% (src, got[1], expect))\n"
                                 "NOT_REPRODUCED()\n") % (s, expect)
            else:
                res["status"] = "skipped"
            out.append(res)
            continue
        pat = ev[1]
        if expect[0] == "exc":
            res = {"name": nm, "detail": "%s returned %r; documented outcome %s" % (s, pat, expect[1]),
                   "inputs": {"src": s, "pattern": pat, "expect": expect, "text": ""}}
            if _exc_is_business(mode, None, expect):
                res["status"] = "violated"
                res["script"] = ("src = %r\nexpect = %r\ntry:\n    p = eval(src)\nexcept Exception as e:\n    NOT_REPRODUCED(repr(e))\n"
                                 "REPRODUCED('%%s returned %%r; documented outcome: %%s' %% (src, str(p), expect[1]))\n") % (s, expect)
            else:
                res["status"] = "skipped"
            out.append(res)
            continue
        if pat in seen_patterns:
            out.append({"name": nm, "status": "discharged", "detail": "same text as [%s]" % seen_patterns[pat]})
            continue
        seen_patterns[pat] = sp
        # is the emitted text a valid regex at all?
        try:
            re.compile(pat, R.FLAGS)
        except re.error as x:
            out.append({"name": nm, "status": "violated", "detail": "%s emits %r: re.error %s" % (s, pat, x),
                        "inputs": {"src": s, "pattern": pat, "text": "", "re_error": str(x)},
                        "script": EQUIV_SCRIPT % dict(src=s, ref=rf.rx, text="")})
            continue
        except RecursionError:
            out.append({"name": nm, "status": "inconclusive", "detail": "re.compile recursion"})
            continue
        if pat == rf.rx:
            out.append({"name": nm, "status": "discharged", "detail": "identical text"})
            continue
        try:
            rr = re.compile(rf.rx, R.FLAGS)
        except Exception as x:
            out.append({"name": nm, "status": "error", "detail": "reference %r does not compile: %r" % (rf.rx, x)})
            continue

        class _G:
            pass
        A, refP = _G(), _G()
        ra = re.compile(pat, R.FLAGS)
        A.ngroups, A.names = ra.groups, dict(ra.groupindex)
        refP.ngroups, refP.names = rr.groups, dict(rr.groupindex)
        if A.ngroups != refP.ngroups or A.names != refP.names:
            try:
                text = some_match_text(rf.rx, L) or ""
            except Exception:
                text = ""
            out.append({"name": nm, "status": "violated",
                        "detail": "%s emits %r with groups %d %r; expression spells %d %r" % (s, pat, A.ngroups, A.names, refP.ngroups, refP.names),
                        "inputs": {"src": s, "pattern": pat, "text": text, "groups": A.ngroups, "ref_groups": refP.ngroups},
                        "script": ("src = %r\nref = %r\np = eval(src)\na, b = re.compile(str(p), FLAGS), re.compile(ref, FLAGS)\n"
                                   "if (a.groups, dict(a.groupindex)) != (b.groups, dict(b.groupindex)): REPRODUCED('%%s emits %%r: groups %%r %%r, expression spells %%r %%r' %% (src, str(p), a.groups, dict(a.groupindex), b.groups, dict(b.groupindex)))\n"
                                   "NOT_REPRODUCED()\n") % (s, rf.rx)})
            continue
        verdict, text, ss, info = equiv_query(pat, rf.rx, L)
        res = {"name": nm, "solver_s": ss, "sample": {"program": s, "emitted": pat, "reference": rf.rx, "L": L, "verdict": verdict}}
        if hseeds is not None:
            res["hashseed"] = hseeds[:6]
        if verdict == "unsat":
            res["status"] = "discharged"
        elif verdict == "sat":
            res["status"] = "violated"
            res["detail"] = "%s emits %r, differs from reference %r on text %r" % (s, pat, rf.rx, text)
            res["inputs"] = {"src": s, "pattern": pat, "ref": rf.rx, "text": text}
            res["script"] = EQUIV_SCRIPT % dict(src=s, ref=rf.rx, text=text)
        elif verdict == "unsupported" and mode == "C10":
            res["status"] = "discharged"
            res["detail"] = "accepted as documented and accepted by re.compile; text semantics outside the exact encoding: %s" % info
        elif verdict == "unsupported" and mode == "C08" and "backreference" in info:
            res["status"] = "discharged"
            res["detail"] = "group structure equal (count and names); text semantics outside the encoding: %s" % info
        else:
            res["status"] = "inconclusive"
            res["detail"] = "%s %s" % (verdict, info)
        out.append(res)
    return out


def _exc_is_business(mode, got_exc, expect):
    """which raise/no-raise disagreements a property reports"""
    if mode == "C02":
        return False                      # exceptions are C03/C09/C10's obligations
    if mode == "C05":
        # the Empty laws: EmptyNegativeAssertionException exactly when documented; nothing else may be raised by an
        # empty operand. Repeatability / fixed-width disagreements are C09 / C10's obligations.
        if expect[0] == "exc" and expect[1] in ("CannotBeRepeatedException", "NonFixedWidthPatternException"):
            return False          # a missing rejection: C09 / C10
        return True
    if mode == "C04":
        # bounds validation and CannotBeRepeated only for bounds above one
        return True
    if mode == "C10":
        names = {got_exc, expect[1] if expect[0] == "exc" else None}
        return "NonFixedWidthPatternException" in names
    if mode == "C09":
        names = {got_exc, expect[1] if expect[0] == "exc" else None}
        return "CannotBeRepeatedException" in names
    if mode == "C08":
        return got_exc not in ("CannotBeRepeatedException", "NonFixedWidthPatternException") if got_exc else \
            expect[1] in ("InvalidCapturingGroupNameException", "InvalidArgumentTypeException")
    return True


def dedupe(ps):
    seen, out = set(), []
    for p in ps:
        k = repr(p)
        if k not in seen:
            seen.add(k)
            out.append(p)
    return out


def check_totality(e, spellings=("class", "method", "operator", "roperator")):
    """C03 on one DSL program: the call raises a pregex exception, or returns a pattern re accepts whose exported
    text is printable; never another exception."""
    out = []
    name = dsl.src(e, "class")
    try:
        dsl.ref(e, leaf_text)
    except dsl.Unspecified as x:
        return [{"name": name, "status": "skipped", "detail": "unspecified: %s" % x}]
    except Exception:
        pass
    for sp in spellings:
        if sp == "operator" and not dsl.has_operator_form(e):
            continue
        if sp == "roperator" and e[0] != "exactly":
            continue
        s = dsl.src(e, sp)
        ev = evaluate(s)
        nm = "%s [%s]" % (name, sp) if sp != "class" else name
        script = ("src = %r\ntry:\n    p = eval(src)\nexcept RecursionError:\n    REPRODUCED(src + ' raised RecursionError')\nexcept Exception as e:\n"
                  "    if type(e).__name__ not in [n for n in dir(__import__('pregex.core.exceptions', fromlist=['x']))]: REPRODUCED(src + ' raised ' + repr(e))\n"
                  "    NOT_REPRODUCED()\n"
                  "try:\n    re.compile(str(p), FLAGS)\nexcept re.error as e:\n    REPRODUCED(src + ' returned %%r which re rejects: %%s' %% (str(p), e))\n"
                  "g = p.get_pattern()\n"
                  "if not g.isprintable(): REPRODUCED(src + ': get_pattern() %%r is not printable' %% g)\n"
                  "try:\n    re.compile(g, FLAGS)\nexcept re.error as e:\n    REPRODUCED(src + ': exported text %%r does not compile: %%s' %% (g, e))\n"
                  "NOT_REPRODUCED()\n") % s
        if ev[0] == "exc":
            if ev[1] in PREGEX_EXC:
                out.append({"name": nm, "status": "discharged", "detail": "library exception %s" % ev[1]})
            else:
                out.append({"name": nm, "status": "violated", "detail": "%s raised %s %s" % (s, ev[1], ev[2][:80]),
                            "inputs": {"src": s, "exc": ev[1], "text": ""}, "script": script})
            continue
        pat = ev[1]
        bad = None
        try:
            re.compile(pat, R.FLAGS)
        except re.error as x:
            if ("unknown group name" in str(x) or "invalid group reference" in str(x) or "cannot refer to an open group" in str(x)) and _has_ref(e):
                out.append({"name": nm, "status": "skipped", "detail": "reference to a group the expression does not define (excepted by the property)"})
                continue
            bad = "re rejects %r: %s" % (pat, x)
        except RecursionError:
            bad = None
        if bad is None:
            try:
                g = ev[2].get_pattern()
                if not g.isprintable():
                    bad = "get_pattern() %r is not printable" % g
                else:
                    re.compile(g, R.FLAGS)
            except re.error as x:
                bad = "exported text does not compile: %s" % x
            except Exception as x:
                bad = "get_pattern() raised %r" % (x,)
        if bad:
            out.append({"name": nm, "status": "violated", "detail": "%s: %s" % (s, bad), "inputs": {"src": s, "pattern": pat, "text": ""}, "script": script})
        else:
            out.append({"name": nm, "status": "discharged"})
    return out


EXPORT_SCRIPT = (
    "src = %(src)r\ntext = %(text)r\np = eval(src)\ng = p.get_pattern()\n"
    "if not g.isprintable(): REPRODUCED('%%s: get_pattern() %%r is not printable' %% (src, g))\n"
    "def fi(pat):\n    rx = re.compile(pat, FLAGS)\n    return [(m.span(), tuple(m.span(k) for k in range(1, rx.groups + 1))) for m in rx.finditer(text)]\n"
    "try:\n    a, b = fi(str(p)), fi(g)\nexcept re.error as e:\n    REPRODUCED('%%s: exported text %%r: %%s' %% (src, g, e))\n"
    "if a != b: REPRODUCED('%%s: pattern %%r and exported text %%r differ on %%r: %%r vs %%r' %% (src, str(p), g, text, a, b))\n"
    "p.compile()\n"
    "c = [(s, e) for _, s, e in p.get_matches_and_pos(text)]\n"
    "if c != [x[0] for x in a]: REPRODUCED('%%s: matches after compile() %%r differ from %%r on %%r' %% (src, c, a, text))\n"
    "NOT_REPRODUCED()\n")


def check_export(e, L):
    """the exported text get_pattern() is printable and compiles to a regex equivalent to str(p) (all texts up to L)"""
    s = dsl.src(e, "class")
    ev = evaluate(s)
    name = "export %s" % s
    if ev[0] == "exc":
        return [{"name": name, "status": "skipped", "detail": "raises %s" % ev[1]}]
    pat = ev[1]
    try:
        g = ev[2].get_pattern()
    except Exception as x:
        return [{"name": name, "status": "violated", "detail": "%s.get_pattern() raised %r" % (s, x), "inputs": {"src": s, "text": ""},
                 "script": EXPORT_SCRIPT % dict(src=s, text="")}]
    if not g.isprintable():
        return [{"name": name, "status": "violated", "detail": "%s: get_pattern() %r is not printable" % (s, g), "inputs": {"src": s, "text": ""},
                 "script": EXPORT_SCRIPT % dict(src=s, text="")}]
    try:
        re.compile(g, R.FLAGS)
        re.compile(pat, R.FLAGS)
    except re.error as x:
        return [{"name": name, "status": "violated", "detail": "%s: %r / exported %r: %s" % (s, pat, g, x), "inputs": {"src": s, "text": ""},
                 "script": EXPORT_SCRIPT % dict(src=s, text="")}]
    if g == pat:
        return [{"name": name, "status": "discharged", "detail": "identical text"}]
    verdict, text, ss, info = equiv_query(pat, g, L)
    res = {"name": name, "solver_s": ss, "sample": {"program": s, "pattern": pat, "exported": g, "verdict": verdict}}
    if verdict == "unsat":
        res["status"] = "discharged"
    elif verdict == "sat":
        res.update(status="violated", detail="%s: pattern %r and exported text %r differ on %r" % (s, pat, g, text),
                   inputs={"src": s, "pattern": pat, "exported": g, "text": text}, script=EXPORT_SCRIPT % dict(src=s, text=text))
    else:
        res.update(status="inconclusive", detail="%s %s" % (verdict, info))
    return [res]


def _has_ref(e):
    if isinstance(e, tuple):
        if e and e[0] in ("bref", "cond"):
            return True
        return any(_has_ref(x) for x in e)
    if isinstance(e, list):
        return any(_has_ref(x) for x in e)
    return False


def seed_sensitive(src):
    """does the expression build class text from a set with more than one member (iteration order = hash seed)?"""
    import re as _re
    arg = r"""(?:'(?:[^'\\]|\\.)*'|"(?:[^"\\]|\\.)*"|\w+\(\))"""
    return bool(_re.search(r"Any(?:But)?From\(" + arg + r"\s*,", src) or _re.search(r"Any(?:But)?Between\(", src)
                or _re.search(r"\)\s*[|-]\s*(?:Any|'|\")|(?:'|\")\s*[|-]\s*Any|~\s*\(?Any", src))


def with_seed_outcomes(programs, seed_list):
    """-> {index: outcomes} for the seed-sensitive programs of a family (class spelling evaluated under real hash seeds)"""
    from . import seeds as S
    idx = [i for i, e in enumerate(programs) if seed_sensitive(dsl.src(e, "class"))]
    if not idx:
        return {}
    srcs = [dsl.src(programs[i], "class") for i in idx]
    by = S.eval_under_seeds(srcs, seed_list)
    out = {}
    for i, s in zip(idx, srcs):
        out[i] = [(k[0], k[1], v) for k, v in by[s].items()]
    return out
