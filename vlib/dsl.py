"""DSL expression trees for pregex programs: Python source in three spellings, and the *reference*
(meaning) of an expression: a fully parenthesised regex, emptiness, repeatability, structural width,
capture list. The reference knows only the documented meaning of each constructor.

Expressions are tuples:
  ('lit', s)                      plain string operand
  ('obj', src)                    a leaf object given by Python source (class, token, ...); its regex text is
                                  taken from the real object (leaf correctness is C06's business)
  ('pre', s)                      Pregex(s)  (explicit wrapping of a string)
  ('concat', [e...]) ('either', [e...]) ('enclose', e, [q...])
  ('opt', e, greedy) ('star', e, greedy) ('plus', e, greedy) ('exactly', e, n)
  ('atleast', e, n, greedy) ('atmost', e, n, greedy) ('between', e, n, m, greedy)
  ('capture', e, name) ('group', e, ci)
  ('mas', e) ('mae', e) ('mals', e) ('male', e)
  ('fb', e, [q...]) ('pb', e, [q...]) ('eb', e, [q...]) ('nfb', ...) ('npb', ...) ('neb', ...)
  ('cond', name, e1, e2|None)     Conditional(name, e1, e2)        ('bref', ref)   Backreference(ref)
"""
import re

GREEDY = {True: "", False: "?"}
CLASSNAME = {"concat": "Concat", "either": "Either", "enclose": "Enclose", "opt": "Optional", "star": "Indefinite",
             "plus": "OneOrMore", "exactly": "Exactly", "atleast": "AtLeast", "atmost": "AtMost",
             "between": "AtLeastAtMost", "capture": "Capture", "group": "Group", "mas": "MatchAtStart",
             "mae": "MatchAtEnd", "mals": "MatchAtLineStart", "male": "MatchAtLineEnd", "fb": "FollowedBy",
             "pb": "PrecededBy", "eb": "EnclosedBy", "nfb": "NotFollowedBy", "npb": "NotPrecededBy",
             "neb": "NotEnclosedBy"}
METHOD = {"concat": "concat", "either": "either", "enclose": "enclose", "opt": "optional", "star": "indefinite",
          "plus": "one_or_more", "exactly": "exactly", "atleast": "at_least", "atmost": "at_most",
          "between": "at_least_at_most", "capture": "capture", "group": "group", "mas": "match_at_start",
          "mae": "match_at_end", "mals": "match_at_line_start", "male": "match_at_line_end", "fb": "followed_by",
          "pb": "preceded_by", "eb": "enclosed_by", "nfb": "not_followed_by", "npb": "not_preceded_by",
          "neb": "not_enclosed_by"}
QUANT = ("opt", "star", "plus", "exactly", "atleast", "atmost", "between")
ANCH = ("mas", "mae", "mals", "male")
LOOK = ("fb", "pb", "eb", "nfb", "npb", "neb")
NONREP = ("mas", "mae", "mals", "male", "fb", "pb", "eb")


# ------------------------------------------------------------------------------------------------
# Python source

def src(e, spelling="class"):
    k = e[0]
    if k == "lit":
        return repr(e[1])
    if k == "pre":
        return "Pregex(%r)" % e[1]
    if k == "obj":
        return e[1]
    if k == "sym":
        return "A%d" % e[1]
    if k == "psym":
        return "Pregex(A%d)" % e[1]
    if k == "cond":
        return "Conditional(%r, %s%s)" % (e[1], src(e[2], spelling), "" if e[3] is None else ", " + src(e[3], spelling))
    if k == "bref":
        return "Backreference(%r)" % (e[1],)
    if spelling == "class":
        return _src_class(e)
    if spelling == "method":
        return _src_method(e)
    if spelling == "operator":
        return _src_operator(e)
    if spelling == "roperator":
        return _src_operator(e, rmul=True)
    raise ValueError(spelling)


def _args_tail(e):
    k = e[0]
    if k in ("opt", "star", "plus"):
        return [] if e[2] else ["is_greedy=False"]
    if k == "exactly":
        return [repr(e[2])]
    if k in ("atleast", "atmost"):
        return [repr(e[2])] + ([] if e[3] else ["is_greedy=False"])
    if k == "between":
        return [repr(e[2]), repr(e[3])] + ([] if e[4] else ["is_greedy=False"])
    if k == "capture":
        return [] if e[2] is None else [repr(e[2])]
    if k == "group":
        return [] if not e[2] else ["is_case_insensitive=True"]
    return []


def _src_class(e):
    k = e[0]
    if k in ("concat", "either"):
        return "%s(%s)" % (CLASSNAME[k], ", ".join(src(x, "class") for x in e[1]))
    if k == "enclose" or k in LOOK:
        return "%s(%s)" % (CLASSNAME[k], ", ".join([src(e[1], "class")] + [src(x, "class") for x in e[2]]))
    return "%s(%s)" % (CLASSNAME[k], ", ".join([src(e[1], "class")] + _args_tail(e)))


def _recv(e, spelling):
    """source of an expression usable as a method receiver"""
    if e[0] == "lit":
        return "Pregex(%r)" % e[1]
    if e[0] == "sym":
        return "Pregex(A%d)" % e[1]
    s = src(e, spelling)
    return s if e[0] in ("obj", "pre", "psym") or spelling == "method" else "(%s)" % s


def _src_method(e):
    k = e[0]
    if k in ("concat", "either"):
        xs = e[1]
        if not xs:
            return CLASSNAME[k] + "()"
        s = _recv(xs[0], "method")
        for x in xs[1:]:
            s += ".%s(%s)" % (METHOD[k], src(x, "method"))
        return s
    if k == "enclose" or k in LOOK:
        s = _recv(e[1], "method")
        for x in e[2]:
            s += ".%s(%s)" % (METHOD[k], src(x, "method"))
        return s
    return "%s.%s(%s)" % (_recv(e[1], "method"), METHOD[k], ", ".join(_args_tail(e)))


def _src_operator(e, rmul=False):
    """operator spelling where one exists (+ for concat, * for exactly); class spelling elsewhere"""
    k = e[0]
    if k == "concat" and len(e[1]) >= 2:
        parts = []
        for i, x in enumerate(e[1]):
            s = src(x, "operator")
            if x[0] not in ("lit", "obj", "pre", "sym", "psym"):
                s = "(%s)" % s if x[0] in ("concat", "exactly") and not s.endswith(")") else s
            parts.append(s)
        # make sure at least one of the first two operands is a Pregex so that + dispatches to pregex
        if (e[1][0][0] in ("lit", "sym") and e[1][1][0] in ("lit", "sym")) or e[1][0][0] == "sym":
            parts[0] = "Pregex(%s)" % parts[0]
        return "(" + " + ".join(parts) + ")"
    if k == "exactly":
        inner = _recv(e[1], "operator")
        return "(%r * %s)" % (e[2], inner) if rmul else "(%s * %r)" % (inner, e[2])
    if k in ("concat", "either"):
        return "%s(%s)" % (CLASSNAME[k], ", ".join(src(x, "operator") for x in e[1]))
    if k == "enclose" or k in LOOK:
        return "%s(%s)" % (CLASSNAME[k], ", ".join([src(e[1], "operator")] + [src(x, "operator") for x in e[2]]))
    return "%s(%s)" % (CLASSNAME[k], ", ".join([src(e[1], "operator")] + _args_tail(e)))


def has_operator_form(e):
    k = e[0]
    if k in ("lit", "obj", "pre", "bref", "sym", "psym"):
        return False
    if k == "cond":
        return has_operator_form(e[2]) or (e[3] is not None and has_operator_form(e[3]))
    if k in ("concat",) and len(e[1]) >= 2:
        return True
    if k == "exactly":
        return True
    subs = []
    if k in ("concat", "either"):
        subs = e[1]
    elif k == "enclose" or k in LOOK:
        subs = [e[1]] + list(e[2])
    else:
        subs = [e[1]]
    return any(has_operator_form(x) for x in subs)


# ------------------------------------------------------------------------------------------------
# reference meaning

class Expected(Exception):
    """the documented outcome is an exception of this pregex class name"""

    def __init__(self, excname, why=""):
        Exception.__init__(self, excname, why)
        self.excname, self.why = excname, why


class Unspecified(Exception):
    """the documented behaviour of this expression is not fixed (excluded by the property)"""


class Ref:
    __slots__ = ("rx", "empty", "nonrep", "wlo", "whi", "caps", "kind", "unspec_rep")

    def __init__(self, rx, empty=False, nonrep=False, wlo=0, whi=0, caps=(), kind="other"):
        self.rx, self.empty, self.nonrep, self.wlo, self.whi, self.caps, self.kind = rx, empty, nonrep, wlo, whi, tuple(caps), kind
        self.unspec_rep = False

    def g(self):
        return "(?:%s)" % self.rx


INF = None


def _wadd(a, b):
    return None if a is None or b is None else a + b


def _wmul(a, n):
    if n is None:
        return 0 if a == 0 else None
    return None if a is None else a * n


def ref(e, leaf_text):
    """leaf_text(src) -> (regex text of the real leaf object, width lo, width hi, capture names)"""
    _UNSPEC_REP[0] = False
    r = _ref(e, leaf_text)
    # C09 fixes repeatability of *direct* anchor / positive-lookaround instances (refused) and of operands that
    # contain none (accepted); a repeating quantifier over an operand that merely contains one is left open
    r.unspec_rep = _UNSPEC_REP[0]
    names = [c for c in r.caps if c is not None]
    if len(names) != len(set(names)):
        raise Unspecified("the expression spells the same group name twice (invalid in re by construction)")
    return r


SYM_MARK = "\x00SYM%d\x00"
_UNSPEC_REP = [False]


def contains_nonrep(e):
    if e[0] in NONREP:
        return True
    return any(contains_nonrep(x) for x in subexprs(e))


def _ref(e, leaf_text):
    k = e[0]
    if k in ("sym", "psym"):
        n = e[2]
        if n == 0:
            return Ref("", empty=True)
        return Ref(SYM_MARK % e[1], wlo=n, whi=n, kind="lit")
    if k in ("lit", "pre"):
        s = e[1]
        if s == "":
            return Ref("", empty=True)
        return Ref(re.escape(s), wlo=len(s), whi=len(s), kind="lit")
    if k == "obj":
        t, lo, hi, caps = leaf_text(e[1])
        return Ref(t, empty=(t == ""), wlo=lo, whi=hi, caps=caps, kind="obj")
    if k == "bref":
        if isinstance(e[1], int):
            return Ref("\\%d" % e[1], wlo=0, whi=None, kind="bref")
        return Ref("(?P=%s)" % e[1], wlo=0, whi=None, kind="bref")
    if k == "cond":
        r1 = _ref(e[2], leaf_text)
        r2 = _ref(e[3], leaf_text) if e[3] is not None else None
        yes = "" if r1.empty else r1.g()
        rx = "(?(%s)%s%s)" % (e[1], yes, "" if r2 is None else "|" + ("" if r2.empty else r2.g()))
        lo = min(r1.wlo, r2.wlo if r2 else 0)
        hi = None if (r1.whi is None or (r2 and r2.whi is None)) else max(r1.whi, r2.whi if r2 else 0)
        return Ref(rx, wlo=lo, whi=hi, caps=list(r1.caps) + (list(r2.caps) if r2 else []), kind="cond")
    if k == "concat":
        rs = [_ref(x, leaf_text) for x in e[1]]
        rs = [r for r in rs if not r.empty]
        if not rs:
            return Ref("", empty=True)
        if len(rs) == 1:
            r = rs[0]
            return Ref(r.rx, False, r.nonrep, r.wlo, r.whi, r.caps, r.kind)
        lo, hi, caps = 0, 0, []
        for r in rs:
            lo, hi = lo + r.wlo, _wadd(hi, r.whi)
            caps += list(r.caps)
        return Ref("".join(r.g() for r in rs), wlo=lo, whi=hi, caps=caps)
    if k == "either":
        rs = [_ref(x, leaf_text) for x in e[1]]
        if not rs:
            return Ref("", empty=True)
        if rs[0].empty and len(rs) > 1 and any(not r.empty for r in rs[1:]):
            raise Unspecified("Either with the empty pattern as first alternative")
        rs = [rs[0]] + [r for r in rs[1:] if not r.empty]
        if len(rs) == 1:
            r = rs[0]
            return Ref(r.rx, r.empty, r.nonrep, r.wlo, r.whi, r.caps, r.kind)
        lo = min(r.wlo for r in rs)
        hi = 0
        caps = []
        for r in rs:
            hi = None if (hi is None or r.whi is None) else max(hi, r.whi)
            caps += list(r.caps)
        return Ref("|".join(r.g() for r in rs), wlo=lo, whi=hi, caps=caps)
    if k == "enclose":
        r = _ref(e[1], leaf_text)
        for q in e[2]:
            rq = _ref(q, leaf_text)
            if rq.empty:
                continue
            if r.empty:
                r = Ref(rq.g() + rq.g(), wlo=2 * rq.wlo, whi=_wmul(rq.whi, 2), caps=list(rq.caps) * 2)
            else:
                r = Ref(rq.g() + r.g() + rq.g(), wlo=r.wlo + 2 * rq.wlo, whi=_wadd(r.whi, _wmul(rq.whi, 2)),
                        caps=list(rq.caps) + list(r.caps) + list(rq.caps))
        return r
    if k in QUANT:
        r = _ref(e[1], leaf_text)
        if k == "opt":
            n, m, gr = 0, 1, e[2]
        elif k == "star":
            n, m, gr = 0, None, e[2]
        elif k == "plus":
            n, m, gr = 1, None, e[2]
        elif k == "exactly":
            n, m, gr = e[2], e[2], True
        elif k == "atleast":
            n, m, gr = e[2], None, e[3]
        elif k == "atmost":
            n, m, gr = 0, e[2], e[3]
        else:
            n, m, gr = e[2], e[3], e[4]
        for v, allow_none in ((n, False), (m, True)):
            if v is None and allow_none:
                continue
            if not isinstance(v, int) or isinstance(v, bool):
                raise Expected("InvalidArgumentTypeException")
        if n < 0 or (m is not None and m < 0) or (m is not None and m < n):
            raise Expected("InvalidArgumentValueException")
        if (m is None or m > 1) and r.nonrep:
            raise Expected("CannotBeRepeatedException")
        if (m is None or m > 1) and not r.empty and contains_nonrep(e[1]):
            _UNSPEC_REP[0] = True
        if r.empty or m == 0:
            return Ref("", empty=True)
        if n == 1 and m == 1:
            return Ref(r.rx, False, r.nonrep, r.wlo, r.whi, r.caps, r.kind)
        q = "{%d,%s}" % (n, "" if m is None else m)
        return Ref(r.g() + q + GREEDY[bool(gr)], wlo=r.wlo * n, whi=_wmul(r.whi, m), caps=r.caps, kind="quant")
    if k == "capture":
        r = _ref(e[1], leaf_text)
        name = e[2]
        if name is not None:
            if not isinstance(name, str):
                raise Expected("InvalidArgumentTypeException")
            _check_name(name)
        if r.empty:
            return r
        if r.kind == "capture":            # capture of a capture adds none; a name (re)names the outermost group
            caps = list(r.caps)
            if name is not None:
                caps[0] = name
                body = _strip_outer(r.rx)
                return Ref("(?P<%s>%s)" % (name, body), wlo=r.wlo, whi=r.whi, caps=caps, kind="capture")
            return r
        if r.kind == "group":              # Capture(Group(p)) converts (flag-less groups)
            body = _strip_outer(r.rx)
            rx = "(%s)" % body if name is None else "(?P<%s>%s)" % (name, body)
            return Ref(rx, wlo=r.wlo, whi=r.whi, caps=[name] + list(r.caps), kind="capture")
        rx = "(%s)" % r.rx if name is None else "(?P<%s>%s)" % (name, r.rx)
        return Ref(rx, wlo=r.wlo, whi=r.whi, caps=[name] + list(r.caps), kind="capture")
    if k == "group":
        r = _ref(e[1], leaf_text)
        ci = bool(e[2])
        if r.empty:
            return r
        if r.kind == "capture":            # Group(Capture(p)) un-captures
            body = _strip_outer(r.rx)
            return Ref("(?%s:%s)" % ("i" if ci else "", body), wlo=r.wlo, whi=r.whi, caps=list(r.caps)[1:],
                       kind="igroup" if ci else "group")
        if r.kind in ("group", "igroup"):  # re-grouping resets the flag
            body = _strip_outer(r.rx)
            return Ref("(?%s:%s)" % ("i" if ci else "", body), wlo=r.wlo, whi=r.whi, caps=r.caps,
                       kind="igroup" if ci else "group")
        return Ref("(?%s:%s)" % ("i" if ci else "", r.rx), wlo=r.wlo, whi=r.whi, caps=r.caps,
                   kind="igroup" if ci else "group")
    if k in ANCH:
        r = _ref(e[1], leaf_text)
        body = "" if r.empty else r.g()
        rx = {"mas": "\\A" + body, "mae": body + "\\Z", "mals": "^" + body, "male": body + "$"}[k]
        return Ref(rx, nonrep=True, wlo=r.wlo, whi=r.whi, caps=r.caps, kind="anchor")
    if k in LOOK:
        r = _ref(e[1], leaf_text)
        if len(e[2]) < 1:
            raise Expected("NotEnoughArgumentsException")
        neg = k in ("nfb", "npb", "neb")
        behind = k in ("pb", "eb", "npb", "neb")
        ahead = k in ("fb", "eb", "nfb", "neb")
        applied = False
        for q in e[2]:
            rq = _ref(q, leaf_text)
            if rq.empty:
                if neg:
                    raise Expected("EmptyNegativeAssertionException")
                continue
            if behind and not (rq.whi is not None and rq.wlo == rq.whi):
                raise Expected("NonFixedWidthPatternException")
            body = "" if r.empty else r.g()
            pre = ("(?<%s%s)" % ("!" if neg else "=", rq.rx)) if behind else ""
            post = ("(?%s%s)" % ("!" if neg else "=", rq.rx)) if ahead else ""
            r = Ref(pre + body + post, wlo=r.wlo, whi=r.whi, caps=(list(rq.caps) if behind else []) + list(r.caps) +
                    (list(rq.caps) if ahead else []), kind="look")
            applied = True
        if applied and not neg:
            r.nonrep = True
        return r
    raise ValueError(k)


def _check_name(name):
    """documented rule: word characters only, not starting with a digit (and re itself needs an identifier).
    Names starting with a non-ASCII letter are documented as valid but refused by the implementation's ASCII-first
    check: not asserted either way."""
    if name == "" or not name.isidentifier() or re.fullmatch(r"\w+", name) is None:
        raise Expected("InvalidCapturingGroupNameException")
    if re.match(r"[A-Za-z_]", name) is None:
        raise Unspecified("group name starting with a non-ASCII letter")


def _strip_outer(rx):
    """body of a reference group text '(...)', '(?:...)', '(?i:...)', '(?P<n>...)'"""
    m = re.match(r"\((?:\?P<[^>]*>|\?i?:)?", rx)
    return rx[m.end():-1]


def subexprs(e):
    k = e[0]
    if k in ("lit", "obj", "pre", "bref", "sym", "psym"):
        return []
    if k == "cond":
        return [e[2]] + ([e[3]] if e[3] is not None else [])
    if k in ("concat", "either"):
        return list(e[1])
    if k == "enclose" or k in LOOK:
        return [e[1]] + list(e[2])
    return [e[1]]
