"""Interval sets over code points 0..0x10FFFF, Unicode tables read from the running interpreter,
and alphabet compression (minterms) used by the SMT encodings."""
import re, sys

MAXCP = 0x10FFFF


class ISet:
    """Immutable sorted list of disjoint inclusive intervals."""
    __slots__ = ("iv", "_h")

    def __init__(self, iv=()):
        iv = sorted((int(a), int(b)) for a, b in iv if a <= b)
        out = []
        for a, b in iv:
            if out and a <= out[-1][1] + 1:
                if b > out[-1][1]:
                    out[-1] = (out[-1][0], b)
            else:
                out.append((a, b))
        self.iv = tuple(out)
        self._h = hash(self.iv)

    def __hash__(self):
        return self._h

    def __eq__(self, o):
        return isinstance(o, ISet) and self.iv == o.iv

    def __bool__(self):
        return bool(self.iv)

    def __contains__(self, c):
        lo, hi = 0, len(self.iv)
        while lo < hi:
            mid = (lo + hi) // 2
            a, b = self.iv[mid]
            if c < a:
                hi = mid
            elif c > b:
                lo = mid + 1
            else:
                return True
        return False

    def __or__(self, o):
        return ISet(self.iv + o.iv)

    def __invert__(self):
        out, prev = [], 0
        for a, b in self.iv:
            if a > prev:
                out.append((prev, a - 1))
            prev = b + 1
        if prev <= MAXCP:
            out.append((prev, MAXCP))
        return ISet(out)

    def __and__(self, o):
        return ~((~self) | (~o))

    def __sub__(self, o):
        return self & (~o)

    def size(self):
        return sum(b - a + 1 for a, b in self.iv)

    def min(self):
        return self.iv[0][0]

    def __repr__(self):
        def f(c):
            return chr(c) if 33 <= c < 127 else "U+%04X" % c
        return "{" + ",".join(f(a) if a == b else f(a) + ".." + f(b) for a, b in self.iv[:12]) + \
            (",..." if len(self.iv) > 12 else "") + "}"

    @staticmethod
    def of(*chars):
        return ISet((ord(c) if isinstance(c, str) else c,) * 2 for c in chars)

    @staticmethod
    def rng(a, b):
        a = ord(a) if isinstance(a, str) else a
        b = ord(b) if isinstance(b, str) else b
        return ISet([(a, b)])

    @staticmethod
    def from_sorted_cps(cps):
        out = []
        for c in cps:
            if out and c == out[-1][1] + 1:
                out[-1][1] = c
            else:
                out.append([c, c])
        return ISet(out)


EMPTY = ISet()
FULL = ISet([(0, MAXCP)])

_ALL = None


def all_chars():
    global _ALL
    if _ALL is None:
        _ALL = "".join(map(chr, range(MAXCP + 1)))
    return _ALL


_tables = {}


def set_of_regex(one_char_pattern, flags=0):
    """Exact set of code points matched by a one-character pattern, read from the real engine
    (one findall over the string of all code points)."""
    key = (one_char_pattern, flags)
    if key not in _tables:
        cps = [ord(m) for m in re.findall(one_char_pattern, all_chars(), flags | re.DOTALL)]
        _tables[key] = ISet.from_sorted_cps(cps)
    return _tables[key]


def U_DIGIT():
    return set_of_regex(r"\d")


def U_SPACE():
    return set_of_regex(r"\s")


def U_WORD():
    return set_of_regex(r"\w")


A_DIGIT = ISet.rng("0", "9")
A_SPACE = ISet.of(" ", "\t", "\n", "\r", "\x0b", "\x0c")
A_WORD = ISet([(48, 57), (65, 90), (97, 122), (95, 95)])


def unicode_only():
    """Code points the Unicode-aware shorthands add beyond their ASCII definitions
    (left unspecified by properties C06, C07, C15-C19)."""
    return (U_DIGIT() - A_DIGIT) | (U_SPACE() - A_SPACE) | (U_WORD() - A_WORD)


class Alphabet:
    """Partition of 0..0x10FFFF into minterms of a family of sets. A text over class indices is
    equivalent, for every pattern/specification whose character tests are unions of minterms, to any
    text over representatives."""

    def __init__(self, sets, exclude=None):
        sets = list(dict.fromkeys(s for s in sets))
        self.exclude = exclude if exclude is not None else EMPTY
        cuts = {0, MAXCP + 1}
        for s in list(sets) + [self.exclude]:
            for a, b in s.iv:
                cuts.add(a)
                cuts.add(b + 1)
        cuts = sorted(cuts)
        sig2cls = {}
        self.cls_iv = []      # class -> list of intervals
        for a, nxt in zip(cuts, cuts[1:]):
            if a in self.exclude:
                continue
            sig = tuple(a in s for s in sets)
            k = sig2cls.get(sig)
            if k is None:
                k = sig2cls[sig] = len(self.cls_iv)
                self.cls_iv.append([])
            self.cls_iv[k].append((a, nxt - 1))
        self.sets = sets
        self.K = len(self.cls_iv)
        self._idx = {}
        sigs = [None] * self.K
        for sig, k in sig2cls.items():
            sigs[k] = sig
        for n, s in enumerate(sets):
            self._idx[s] = frozenset(k for k in range(self.K) if sigs[k][n])
        self.rep = [self._pick(ivs) for ivs in self.cls_iv]

    @staticmethod
    def _pick(ivs):
        best = None
        for a, b in ivs:
            for pref in ((97, 122), (65, 90), (48, 57), (33, 126), (32, 32)):
                lo, hi = max(a, pref[0]), min(b, pref[1])
                if lo <= hi:
                    return lo
            if best is None:
                best = a
        # avoid surrogates when possible
        for a, b in ivs:
            if not (0xD800 <= a <= 0xDFFF):
                return a
            if b > 0xDFFF:
                return 0xE000
        return best

    def classes_of(self, s):
        """Set of class indices making up ISet s (s must be a union of minterms: registered)."""
        r = self._idx.get(s)
        if r is None:
            ks = set()
            for k, ivs in enumerate(self.cls_iv):
                inside = [(a in s) for a, b in ivs]
                full = all(self._covers(s, a, b) for a, b in ivs)
                if any(inside) and not full:
                    raise ValueError("set %r is not a union of alphabet minterms" % (s,))
                if full:
                    ks.add(k)
            r = self._idx[s] = frozenset(ks)
        return r

    @staticmethod
    def _covers(s, a, b):
        for x, y in s.iv:
            if x <= a and b <= y:
                return True
        return False

    def class_of_cp(self, cp):
        for k, ivs in enumerate(self.cls_iv):
            for a, b in ivs:
                if a <= cp <= b:
                    return k
        return None
